//! Native replay stand-in for the `kani` crate (DESIGN.md 2.4).
//!
//! `kani::any()` pops the next concrete value of the counterexample (same order and byte layout as
//! Kani's own concrete playback: one little-endian byte vector per primitive, arrays element by
//! element); `assume` aborts the replay if the counterexample does not satisfy it (that would mean the
//! replay does not follow the solver's path); `cover!` records that it was reached.
pub use kani_macros_shim::{proof, should_panic, solver, stub, unwind};

use std::cell::RefCell;

thread_local! {
    static VALS: RefCell<Vec<Vec<u8>>> = RefCell::new(Vec::new());
    static COVERS: RefCell<Vec<&'static str>> = RefCell::new(Vec::new());
}

pub struct AssumeViolated;

pub fn concrete_playback_run<F: Fn()>(mut vals: Vec<Vec<u8>>, harness: F) {
    vals.reverse();
    VALS.with(|v| *v.borrow_mut() = vals);
    COVERS.with(|c| c.borrow_mut().clear());
    harness();
}

pub fn covers_reached() -> Vec<&'static str> {
    COVERS.with(|c| c.borrow().clone())
}

pub fn cover_reached(msg: &'static str) {
    COVERS.with(|c| c.borrow_mut().push(msg));
}

fn next_bytes(sz: usize) -> Vec<u8> {
    if sz == 0 {
        return vec![];
    }
    let v = VALS.with(|v| v.borrow_mut().pop());
    match v {
        Some(b) => {
            assert_eq!(b.len(), sz, "concrete value has the wrong size");
            b
        }
        // CBMC omits values it did not need: any value will do, use zero
        None => vec![0; sz],
    }
}

pub trait Arbitrary: Sized {
    fn any() -> Self;
}

macro_rules! arb_int {
    ($($t:ty),*) => {$(
        impl Arbitrary for $t {
            fn any() -> Self {
                let b = next_bytes(std::mem::size_of::<$t>());
                let mut a = [0u8; std::mem::size_of::<$t>()];
                a.copy_from_slice(&b);
                <$t>::from_le_bytes(a)
            }
        }
    )*};
}
arb_int!(u8, u16, u32, u64, u128, usize, i8, i16, i32, i64, i128, isize);

impl Arbitrary for bool {
    fn any() -> Self {
        next_bytes(1)[0] & 1 == 1
    }
}

impl<T: Arbitrary, const N: usize> Arbitrary for [T; N] {
    fn any() -> Self {
        [(); N].map(|_| T::any())
    }
}

pub fn any<T: Arbitrary>() -> T {
    T::any()
}

pub fn assume(cond: bool) {
    if !cond {
        // the counterexample does not satisfy an assumption: not a faithful replay
        std::panic::panic_any(AssumeViolated);
    }
}

#[macro_export]
macro_rules! cover {
    () => {
        $crate::cover_reached("cover")
    };
    ($cond:expr $(,)?) => {
        if $cond {
            $crate::cover_reached(stringify!($cond))
        }
    };
    ($cond:expr, $msg:literal) => {
        if $cond {
            $crate::cover_reached($msg)
        }
    };
}
