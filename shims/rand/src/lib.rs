//! RNG environment stub (DESIGN.md, C19).
//!
//! Models exactly the documented contract of the generator API that volute uses:
//! `rand::thread_rng()` hands out a generator and `RngCore::next_u64` returns *some* u64.
//! The harness fills `DRAWS` with `kani::any()` values; every `next_u64` pops the next one and
//! counts the pop.  Nothing else of `rand` exists here, so a rewrite of volute to another RNG API
//! stops compiling ("anchor not found") instead of silently verifying something else.

pub const MAX_DRAWS: usize = 80;

pub static mut DRAWS: [u64; MAX_DRAWS] = [0; MAX_DRAWS];
pub static mut POPS: usize = 0;

pub struct ThreadRng;

pub fn thread_rng() -> ThreadRng {
    ThreadRng
}

pub trait RngCore {
    fn next_u64(&mut self) -> u64;
    fn next_u32(&mut self) -> u32 {
        self.next_u64() as u32
    }
}

impl RngCore for ThreadRng {
    fn next_u64(&mut self) -> u64 {
        unsafe {
            let i = POPS;
            POPS = i + 1;
            DRAWS[i % MAX_DRAWS]
        }
    }
}

/// Harness side: install the draw sequence and reset the pop counter.
pub fn install(draws: &[u64]) {
    unsafe {
        let mut i = 0;
        // the installed values repeat cyclically over the whole buffer
        while i < MAX_DRAWS {
            DRAWS[i] = if draws.is_empty() { 0 } else { draws[i % draws.len()] };
            i += 1;
        }
        POPS = 0;
    }
}

pub fn pops() -> usize {
    unsafe { POPS }
}
