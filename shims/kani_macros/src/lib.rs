//! Native stand-ins for Kani's attribute macros: they return the item unchanged, so that a harness
//! module compiles with an ordinary rustc for *native replay* of solver counterexamples.
use proc_macro::TokenStream;

#[proc_macro_attribute]
pub fn proof(_attr: TokenStream, item: TokenStream) -> TokenStream {
    item
}
#[proc_macro_attribute]
pub fn unwind(_attr: TokenStream, item: TokenStream) -> TokenStream {
    item
}
#[proc_macro_attribute]
pub fn stub(_attr: TokenStream, item: TokenStream) -> TokenStream {
    item
}
#[proc_macro_attribute]
pub fn should_panic(_attr: TokenStream, item: TokenStream) -> TokenStream {
    item
}
#[proc_macro_attribute]
pub fn solver(_attr: TokenStream, item: TokenStream) -> TokenStream {
    item
}
