// C04 / C05 end-to-end (public API, real walk / decoder / dispatch / tables).
//
// Specification evaluator, bit by bit (single-word tables, n <= 4):
//   (g.f)(y) = f(x) ^ mask[n],   x[perm[i]] = y[i] ^ mask[i]
use crate::verif_common::*;

/// Apply the group element (perm, mask) to the n-variable table `f` (n <= 6, one word).
pub fn apply(f: u64, n: usize, perm: &[u8], mask: u32) -> u64 {
    let mut g = 0u64;
    let mut y = 0usize;
    while y < (1usize << n) {
        let mut x = 0usize;
        let mut i = 0;
        while i < n {
            let b = ((y >> i) & 1) ^ ((mask as usize >> i) & 1);
            x |= b << (perm[i] as usize);
            i += 1;
        }
        let v = ((f >> x) & 1) ^ ((mask as u64 >> n) & 1);
        g |= v << y;
        y += 1;
    }
    g
}

pub fn is_perm(p: &[u8], n: usize) -> bool {
    if p.len() != n {
        return false;
    }
    let mut seen = 0u32;
    let mut i = 0;
    while i < n {
        if (p[i] as usize) >= n {
            return false;
        }
        seen |= 1 << p[i];
        i += 1;
    }
    seen == (1u32 << n) - 1
}

/// An arbitrary permutation of 0..N (array of fixed length 4, only the first N entries matter).
#[cfg(kani)]
pub fn any_perm(n: usize) -> [u8; 4] {
    let p: [u8; 4] = kani::any();
    kani::assume(is_perm(&p[..n], n));
    p
}

const ID: [u8; 4] = [0, 1, 2, 3];

/// All permutations of up to 4 elements, for the membership witness (concrete loop).
const PERMS4: [[u8; 4]; 24] = [
    [0, 1, 2, 3], [0, 1, 3, 2], [0, 2, 1, 3], [0, 2, 3, 1], [0, 3, 1, 2], [0, 3, 2, 1],
    [1, 0, 2, 3], [1, 0, 3, 2], [1, 2, 0, 3], [1, 2, 3, 0], [1, 3, 0, 2], [1, 3, 2, 0],
    [2, 0, 1, 3], [2, 0, 3, 1], [2, 1, 0, 3], [2, 1, 3, 0], [2, 3, 0, 1], [2, 3, 1, 0],
    [3, 0, 1, 2], [3, 0, 2, 1], [3, 1, 0, 2], [3, 1, 2, 0], [3, 2, 0, 1], [3, 2, 1, 0],
];

/// Is `c` reachable from `f` under the group? kind: 0 = P, 1 = N, 2 = NPN.  Concrete enumeration of
/// the group, symbolic tables: an existential witness independent of the returned certificate.
pub fn member(f: u64, c: u64, n: usize, kind: u8) -> bool {
    let mut found = false;
    let mut pi = 0;
    while pi < 24 {
        let p = &PERMS4[pi];
        // permutations of 0..n embedded in PERMS4: those fixing n..4
        let mut ok = true;
        let mut i = n;
        while i < 4 {
            if p[i] as usize != i {
                ok = false;
            }
            i += 1;
        }
        if kind == 1 {
            ok = pi == 0;
        }
        if ok {
            let mut m = 0u32;
            let mmax: u32 = if kind == 0 { 1 } else { 1u32 << (n + 1) };
            while m < mmax {
                if apply(f, n, &p[..n], m) == c {
                    found = true;
                }
                m += 1;
            }
        }
        pi += 1;
    }
    found
}

macro_rules! c04_p {
    ($(#[$attr:meta])* $name:ident, $fam:ident, $u:literal) => {
        #[kani::proof]
        #[kani::unwind($u)]
        $(#[$attr])*
        pub fn $name() {
            use crate::verif_common::$fam as F;
            let b = any_blocks::<1>(F::N);
            let f = F::mk(&b);
            let (c, perm) = f.p_canonization();
            let cw = c.blocks()[0];
            assert!(wf(F::N, c.blocks()));
            // C04: lower bound against an arbitrary permutation, in the library's own order
            let p = any_perm(F::N);
            let g = F::mk(&[apply(b[0], F::N, &p[..F::N], 0)]);
            assert!(c <= g);
            // C04: the representative is a member of the orbit (witness independent of the certificate)
            assert!(member(b[0], cw, F::N, 0));
            // C05: the certificate maps f to c, uses no complementation, perm is a permutation
            assert!(is_perm(perm.as_ref(), F::N));
            assert!(apply(b[0], F::N, perm.as_ref(), 0) == cw);
            kani::cover!(cw == b[0], "input already canonical");
            kani::cover!(cw != b[0], "input not canonical");
            kani::cover!(true, "reached");
        }
    };
}

macro_rules! c04_n {
    ($(#[$attr:meta])* $name:ident, $fam:ident, $u:literal) => {
        #[kani::proof]
        #[kani::unwind($u)]
        $(#[$attr])*
        pub fn $name() {
            use crate::verif_common::$fam as F;
            let b = any_blocks::<1>(F::N);
            let f = F::mk(&b);
            let (c, mask) = f.n_canonization();
            let cw = c.blocks()[0];
            assert!(wf(F::N, c.blocks()));
            let m: u32 = kani::any();
            kani::assume(m < (1u32 << (F::N + 1)));
            let g = F::mk(&[apply(b[0], F::N, &ID[..F::N], m)]);
            assert!(c <= g);
            assert!(member(b[0], cw, F::N, 1));
            // C05: identity permutation (none is returned), mask has no bit above n
            assert!(mask < (1u32 << (F::N + 1)));
            assert!(apply(b[0], F::N, &ID[..F::N], mask) == cw);
            kani::cover!(cw == b[0], "input already canonical");
            kani::cover!(cw != b[0], "input not canonical");
            kani::cover!(true, "reached");
        }
    };
}

macro_rules! c04_npn {
    ($(#[$attr:meta])* $name:ident, $fam:ident, $u:literal) => {
        #[kani::proof]
        #[kani::unwind($u)]
        $(#[$attr])*
        pub fn $name() {
            use crate::verif_common::$fam as F;
            let b = any_blocks::<1>(F::N);
            let f = F::mk(&b);
            let (c, perm, mask) = f.npn_canonization();
            let cw = c.blocks()[0];
            assert!(wf(F::N, c.blocks()));
            let p = any_perm(F::N);
            let m: u32 = kani::any();
            kani::assume(m < (1u32 << (F::N + 1)));
            let g = F::mk(&[apply(b[0], F::N, &p[..F::N], m)]);
            assert!(c <= g);
            assert!(member(b[0], cw, F::N, 2));
            assert!(is_perm(perm.as_ref(), F::N));
            assert!(mask < (1u32 << (F::N + 1)));
            assert!(apply(b[0], F::N, perm.as_ref(), mask) == cw);
            kani::cover!(cw == b[0], "input already canonical");
            kani::cover!(cw != b[0], "input not canonical");
            kani::cover!(true, "reached");
        }
    };
}

/// Canonizing a representative returns it unchanged; equivalent functions get the same representative.
macro_rules! c04_idem {
    ($(#[$attr:meta])* $name:ident, $fam:ident, $u:literal) => {
        #[kani::proof]
        #[kani::unwind($u)]
        $(#[$attr])*
        pub fn $name() {
            use crate::verif_common::$fam as F;
            let b = any_blocks::<1>(F::N);
            let f = F::mk(&b);
            let which: u8 = kani::any();
            kani::assume(which < 3);
            let p = any_perm(F::N);
            let m: u32 = kani::any();
            kani::assume(m < (1u32 << (F::N + 1)));
            if which == 0 {
                let c = f.p_canonization().0;
                assert!(c.p_canonization().0 == c);
                let g = F::mk(&[apply(b[0], F::N, &p[..F::N], 0)]);
                assert!(g.p_canonization().0 == c);
            } else if which == 1 {
                let c = f.n_canonization().0;
                assert!(c.n_canonization().0 == c);
                let g = F::mk(&[apply(b[0], F::N, &ID[..F::N], m)]);
                assert!(g.n_canonization().0 == c);
            } else {
                let c = f.npn_canonization().0;
                assert!(c.npn_canonization().0 == c);
                let g = F::mk(&[apply(b[0], F::N, &p[..F::N], m)]);
                assert!(g.npn_canonization().0 == c);
            }
            kani::cover!(which == 2, "npn arm");
            kani::cover!(true, "reached");
        }
    };
}

/// C10 hook: LutN and Lut return corresponding canonization triples.
macro_rules! c04_diff {
    ($(#[$attr:meta])* $name:ident, $fam:ident, $u:literal) => {
        #[kani::proof]
        #[kani::unwind($u)]
        $(#[$attr])*
        pub fn $name() {
            use crate::verif_common::$fam as F;
            let b = any_blocks::<1>(F::N);
            let f = F::mk(&b);
            let d = crate::Lut::from_blocks(F::N, &b);
            let which: u8 = kani::any();
            kani::assume(which < 3);
            if which == 0 {
                let (c, p) = f.p_canonization();
                let (dc, dp) = d.p_canonization();
                assert!(dc.blocks()[0] == c.blocks()[0] && dc.num_vars() == F::N);
                assert!(dp.len() == F::N);
                let mut i = 0;
                while i < F::N {
                    assert!(dp[i] == p[i]);
                    i += 1;
                }
            } else if which == 1 {
                let (c, m) = f.n_canonization();
                let (dc, dm) = d.n_canonization();
                assert!(dc.blocks()[0] == c.blocks()[0] && dm == m);
            } else {
                let (c, p, m) = f.npn_canonization();
                let (dc, dp, dm) = d.npn_canonization();
                assert!(dc.blocks()[0] == c.blocks()[0] && dm == m);
                let mut i = 0;
                while i < F::N {
                    assert!(dp[i] == p[i]);
                    i += 1;
                }
            }
            kani::cover!(which == 2, "npn arm");
            kani::cover!(true, "reached");
        }
    };
}

/// Native confirmation for a refuted sequence lemma (L2) -- public API only, no kani: brute-force orbit
/// minimum of `count` pseudo-random n-variable functions against the library's canonization.
/// kind: 0 = P, 1 = N, 2 = NPN.  Panics on the first function whose representative is not the minimum.
pub fn confirm_canon(n: usize, kind: u8, count: usize) {
    fn apply_multi(b: &[u64], n: usize, perm: &[u8], mask: u32) -> Vec<u64> {
        let mut g = vec![0u64; b.len()];
        for y in 0..(1usize << n) {
            let mut x = 0usize;
            for i in 0..n {
                let bt = ((y >> i) & 1) ^ ((mask as usize >> i) & 1);
                x |= bt << (perm[i] as usize);
            }
            let v = ((b[x >> 6] >> (x & 63)) & 1) ^ ((mask as u64 >> n) & 1);
            g[y >> 6] |= v << (y & 63);
        }
        g
    }
    fn perms(n: usize) -> Vec<Vec<u8>> {
        fn rec(cur: &mut Vec<u8>, used: &mut Vec<bool>, n: usize, out: &mut Vec<Vec<u8>>) {
            if cur.len() == n {
                out.push(cur.clone());
                return;
            }
            for i in 0..n {
                if !used[i] {
                    used[i] = true;
                    cur.push(i as u8);
                    rec(cur, used, n, out);
                    cur.pop();
                    used[i] = false;
                }
            }
        }
        let mut out = vec![];
        rec(&mut vec![], &mut vec![false; n], n, &mut out);
        out
    }
    let t = tsize(n);
    let all = perms(n);
    let id: Vec<u8> = (0..n as u8).collect();
    let mut st: u64 = 0x2545_F491_4F6C_DD1D;
    for _ in 0..count {
        let mut b = vec![0u64; t];
        for w in b.iter_mut() {
            st ^= st << 13;
            st ^= st >> 7;
            st ^= st << 17;
            *w = st & low_mask(n);
        }
        let f = crate::Lut::from_blocks(n, &b);
        let ps: &[Vec<u8>] = if kind == 1 { std::slice::from_ref(&id) } else { &all };
        let mmax: u32 = if kind == 0 { 1 } else { 1u32 << (n + 1) };
        // brute-force orbit minimum of the base function ...
        let mut best = f.clone();
        for p in ps {
            for m in 0..mmax {
                let g = crate::Lut::from_blocks(n, &apply_multi(&b, n, p, m));
                if g < best {
                    best = g;
                }
            }
        }
        // ... and ORBIT SWEEP: every member h = g.best of the orbit must canonize back to `best`.  For a
        // base function without symmetries every h needs a different group element to reach the minimum,
        // so a single group element missed by the walk shows up on exactly one h.
        let bb: Vec<u64> = best.blocks().to_vec();
        for p in ps {
            for m in 0..mmax {
                let h = crate::Lut::from_blocks(n, &apply_multi(&bb, n, p, m));
                let c = match kind {
                    0 => h.p_canonization().0,
                    1 => h.n_canonization().0,
                    _ => h.npn_canonization().0,
                };
                assert!(c == best, "canonization of {} is {} but the orbit minimum is {}", h, c, best);
            }
        }
    }
}

macro_rules! c04_confirm {
    ($name:ident, $n:literal, $kind:literal, $count:literal, $u:literal) => {
        pub fn $name() {
            confirm_canon($n, $kind, $count);
        }
    };
}

// ---- instantiations (generated by /verif/lib/registry.py) ----
