// C10 -- the fixed-size aliases LutN and the dynamic Lut behave identically; conversions are lossless.
// Differential harnesses, public API only: the same operation is applied to a LutN and to the Lut
// holding the same function, and the results must correspond.
use crate::verif_common::*;
use crate::Lut;
use std::convert::TryFrom;

fn same(n: usize, d: &Lut, b: &[u64]) -> bool {
    if d.num_vars() != n || d.blocks().len() != b.len() {
        return false;
    }
    let mut i = 0;
    while i < b.len() {
        if d.blocks()[i] != b[i] {
            return false;
        }
        i += 1;
    }
    true
}

/// Conversions: From<LutN> for Lut keeps size and blocks; TryFrom<Lut> is its inverse and fails exactly
/// when the variable counts differ (never panics).
macro_rules! c10_conv {
    ($name:ident, $fam:ident, $u:literal) => {
        #[kani::proof]
        #[kani::unwind($u)]
        pub fn $name() {
            use crate::verif_common::$fam as F;
            let b = any_blocks::<{ F::T }>(F::N);
            let a = F::mk(&b);
            let d = Lut::from(a);
            assert!(same(F::N, &d, &b));
            let back = <F::L>::try_from(d.clone());
            assert!(back.is_ok());
            let back = back.unwrap();
            assert!(back == a);
            let mut i = 0;
            while i < F::T {
                assert!(back.blocks()[i] == b[i]);
                i += 1;
            }
            // round trip from the dynamic side
            let d2 = Lut::from_blocks(F::N, &b);
            let s2 = <F::L>::try_from(d2.clone()).unwrap();
            assert!(Lut::from(s2) == d2);
            // every other size is rejected without panicking
            let mut np = 0;
            while np <= 13 {
                if np != F::N {
                    let other = if np % 2 == 0 { Lut::zero(np) } else { Lut::one(np) };
                    assert!(<F::L>::try_from(other).is_err());
                }
                np += 1;
            }
            kani::cover!(true, "reached");
        }
    };
}

/// Operators and variable transforms.
macro_rules! c10_ops {
    ($name:ident, $fam:ident, $lo:literal, $hi:literal, $u:literal) => {
        #[kani::proof]
        #[kani::unwind($u)]
        pub fn $name() {
            use crate::verif_common::$fam as F;
            let ba = any_blocks::<{ F::T }>(F::N);
            let bb = any_blocks::<{ F::T }>(F::N);
            let a = F::mk(&ba);
            let b = F::mk(&bb);
            let da = Lut::from_blocks(F::N, &ba);
            let db = Lut::from_blocks(F::N, &bb);
            let which: u8 = kani::any();
            kani::assume(which >= $lo && which < $hi);
            let m = any_m(F::N);
            match which {
                0 => assert!(same(F::N, &da.not(), a.not().blocks())),
                1 => assert!(same(F::N, &da.and(&db), a.and(&b).blocks())),
                2 => assert!(same(F::N, &da.or(&db), a.or(&b).blocks())),
                3 => assert!(same(F::N, &da.xor(&db), a.xor(&b).blocks())),
                4 => assert!(same(F::N, &(!&da), (!&a).blocks())),
                5 => assert!(same(F::N, &(&da & &db), (&a & &b).blocks())),
                6 => assert!(same(F::N, &(&da | &db), (&a | &b).blocks())),
                7 => assert!(same(F::N, &(&da ^ &db), (&a ^ &b).blocks())),
                8 => assert!(da.value(m) == a.value(m) && da.get_bit(m) == a.get_bit(m)),
                9 => assert!(da.cmp(&db) == a.cmp(&b) && (da == db) == (a == b)),
                10 => {
                    let mut x = a.clone();
                    let mut dx = da.clone();
                    let v: bool = kani::any();
                    x.set_value(m, v);
                    dx.set_value(m, v);
                    assert!(same(F::N, &dx, x.blocks()));
                }
                11 => assert!(da.num_bits() == a.num_bits() && da.num_blocks() == a.num_blocks() && da.num_vars() == a.num_vars()),
                // the remaining operator-trait forms and the compound assignments, same form on both types
                30 => assert!(same(F::N, &(da.clone() & db.clone()), (a.clone() & b.clone()).blocks())),
                31 => assert!(same(F::N, &(da.clone() & &db), (a.clone() & &b).blocks())),
                32 => assert!(same(F::N, &(&da & db.clone()), (&a & b.clone()).blocks())),
                33 => assert!(same(F::N, &(da.clone() | db.clone()), (a.clone() | b.clone()).blocks())),
                34 => assert!(same(F::N, &(da.clone() | &db), (a.clone() | &b).blocks())),
                35 => assert!(same(F::N, &(&da | db.clone()), (&a | b.clone()).blocks())),
                36 => assert!(same(F::N, &(da.clone() ^ db.clone()), (a.clone() ^ b.clone()).blocks())),
                37 => assert!(same(F::N, &(da.clone() ^ &db), (a.clone() ^ &b).blocks())),
                38 => assert!(same(F::N, &(&da ^ db.clone()), (&a ^ b.clone()).blocks())),
                39 => assert!(same(F::N, &(!da.clone()), (!a.clone()).blocks())),
                40 => {
                    let mut x = a.clone();
                    let mut dx = da.clone();
                    x &= b.clone();
                    dx &= db.clone();
                    assert!(same(F::N, &dx, x.blocks()));
                    x |= &a;
                    dx |= &da;
                    assert!(same(F::N, &dx, x.blocks()));
                    x ^= b.clone();
                    dx ^= db.clone();
                    assert!(same(F::N, &dx, x.blocks()));
                }
                41 => {
                    let mut x = a.clone();
                    let mut dx = da.clone();
                    x &= &b;
                    dx &= &db;
                    assert!(same(F::N, &dx, x.blocks()));
                    x |= a.clone();
                    dx |= da.clone();
                    assert!(same(F::N, &dx, x.blocks()));
                    x ^= &b;
                    dx ^= &db;
                    assert!(same(F::N, &dx, x.blocks()));
                }
                42 => {
                    let mut x = a.clone();
                    let mut dx = da.clone();
                    x.and_inplace(&b);
                    dx.and_inplace(&db);
                    assert!(same(F::N, &dx, x.blocks()));
                    x.or_inplace(&a);
                    dx.or_inplace(&da);
                    x.xor_inplace(&b);
                    dx.xor_inplace(&db);
                    x.not_inplace();
                    dx.not_inplace();
                    assert!(same(F::N, &dx, x.blocks()));
                }
                _ => {}
            }
            if F::N >= 1 {
                let i = any_var(F::N);
                let j = any_var(F::N);
                match which {
                    20 => assert!(same(F::N, &da.flip(i), a.flip(i).blocks())),
                    21 => assert!(same(F::N, &da.swap(i, j), a.swap(i, j).blocks())),
                    22 => {
                        if i < F::N - 1 {
                            let mut x = a.clone();
                            let mut dx = da.clone();
                            assert!(same(F::N, &dx.swap_adjacent(i), x.swap_adjacent(i).blocks()));
                        }
                    }
                    23 => {
                        let (c0, c1) = a.cofactors(i);
                        let (d0, d1) = da.cofactors(i);
                        assert!(same(F::N, &d0, c0.blocks()) && same(F::N, &d1, c1.blocks()));
                    }
                    24 => assert!(same(F::N, &Lut::from_cofactors(&da, &db, i), <F::L>::from_cofactors(&a, &b, i).blocks())),
                    25 => assert!(da.top_decomposition(i) == a.top_decomposition(i)),
                    26 => assert!(da.is_pos_unate(i) == a.is_pos_unate(i) && da.is_neg_unate(i) == a.is_neg_unate(i)),
                    _ => {}
                }
            }
            kani::cover!(which == $hi - 1, "last arm");
            kani::cover!(true, "reached");
        }
    };
}

/// Named constructors with arbitrary parameters, iterator items.
macro_rules! c10_ctors {
    ($name:ident, $fam:ident, $u:literal) => {
        #[kani::proof]
        #[kani::unwind($u)]
        pub fn $name() {
            use crate::verif_common::$fam as F;
            let which: u8 = kani::any();
            let k: usize = kani::any();
            match which {
                0 => assert!(same(F::N, &Lut::zero(F::N), F::zero().blocks())),
                1 => assert!(same(F::N, &Lut::one(F::N), F::one().blocks())),
                2 => {
                    if F::N >= 1 {
                        kani::assume(k < F::N);
                        assert!(same(F::N, &Lut::nth_var(F::N, k), F::nth_var(k).blocks()));
                    }
                }
                3 => assert!(same(F::N, &Lut::parity(F::N), F::parity().blocks())),
                4 => assert!(same(F::N, &Lut::majority(F::N), F::majority().blocks())),
                5 => assert!(same(F::N, &Lut::threshold(F::N, k), F::threshold(k).blocks())),
                6 => assert!(same(F::N, &Lut::equals(F::N, k), F::equals(k).blocks())),
                7 => assert!(same(F::N, &Lut::symmetric(F::N, k), F::symmetric(k).blocks())),
                8 => {
                    let mut si = F::all_functions();
                    let mut di = Lut::all_functions(F::N);
                    let mut c = 0;
                    while c < 2 {
                        let s = si.next().unwrap();
                        let d = di.next().unwrap();
                        assert!(same(F::N, &d, s.blocks()));
                        c += 1;
                    }
                }
                _ => {}
            }
            kani::cover!(which == 7 && k >= 64, "symmetric/equals/threshold with a large parameter");
            kani::cover!(true, "reached");
        }
    };
}

/// Integer conversions of Lut3..Lut6 are bit-exact bijections.
macro_rules! c10_int {
    ($name:ident, $lut:ident, $int:ty, $n:literal, $u:literal) => {
        #[kani::proof]
        #[kani::unwind($u)]
        pub fn $name() {
            let x: $int = kani::any();
            let l = crate::$lut::from(x);
            let m = any_m($n);
            assert!(wf($n, l.blocks()));
            assert!(l.value(m) == ((x >> m) & 1 == 1));
            let y: $int = <$int>::from(l);
            assert!(y == x);
            // and from the table side
            let b = any_blocks::<1>($n);
            let t = crate::$lut::from_blocks(&b);
            let z: $int = <$int>::from(t);
            assert!(z as u64 == b[0]);
            assert!(crate::$lut::from(z) == t);
            kani::cover!(true, "reached");
        }
    };
}

/// Hex strings agree between the two types, and parse to corresponding tables.
macro_rules! c10_strings {
    ($name:ident, $fam:ident, $w:literal, $u:literal) => {
        #[kani::proof]
        #[kani::unwind($u)]
        pub fn $name() {
            use crate::verif_common::$fam as F;
            const W: usize = $w;
            let bytes: [u8; W] = kani::any();
            let mut k = 0;
            while k < W {
                kani::assume(bytes[k] < 0x80);
                k += 1;
            }
            let s = unsafe { std::str::from_utf8_unchecked(&bytes) };
            let rs = F::from_hex_string(s);
            let rd = Lut::from_hex_string(F::N, s);
            assert!(rs.is_ok() == rd.is_ok());
            if let (Ok(a), Ok(d)) = (&rs, &rd) {
                assert!(same(F::N, d, a.blocks()));
            }
            kani::cover!(rs.is_ok(), "accepted");
            kani::cover!(true, "reached");
        }
    };
}

// ---- instantiations (generated by /verif/lib/registry.py) ----
