// C02 -- equality / hash / order are extensional; well-formedness of the block view is preserved by
// every public producer (one step from an arbitrary well-formed state).  Public API only.
use crate::verif_common::*;
use std::cmp::Ordering;
use std::hash::{Hash, Hasher};

/// A hasher that records the byte stream it is fed (no mixing): two values hash equal under every
/// hasher iff they feed identical streams.
pub struct Rec<const CAP: usize> {
    pub buf: [u8; CAP],
    pub len: usize,
}

impl<const CAP: usize> Rec<CAP> {
    pub fn new() -> Self {
        Rec { buf: [0u8; CAP], len: 0 }
    }
}

impl<const CAP: usize> Hasher for Rec<CAP> {
    fn finish(&self) -> u64 {
        0
    }
    fn write(&mut self, bytes: &[u8]) {
        let mut i = 0;
        while i < bytes.len() {
            if self.len < CAP {
                self.buf[self.len] = bytes[i];
            }
            self.len += 1;
            i += 1;
        }
    }
}

/// Lowest assignment on which two block slices differ.
fn lowest_diff(a: &[u64], b: &[u64]) -> Option<usize> {
    let mut i = 0;
    while i < a.len() {
        let x = a[i] ^ b[i];
        if x != 0 {
            return Some(i * 64 + x.trailing_zeros() as usize);
        }
        i += 1;
    }
    None
}

macro_rules! c02_ext {
    ($name:ident, $fam:ident, $u:literal) => {
        #[kani::proof]
        #[kani::unwind($u)]
        pub fn $name() {
            use crate::verif_common::$fam as F;
            const CAP: usize = 8 * F::T + 24;
            let ba = any_blocks::<{ F::T }>(F::N);
            let bb = any_blocks::<{ F::T }>(F::N);
            let a = F::mk(&ba);
            let b = F::mk(&bb);
            let m = any_m(F::N);
            let eqv = a == b;
            assert!((a != b) == !eqv);
            // == is exactly "same value on every assignment" (Skolem witness for the negative direction)
            match lowest_diff(&ba, &bb) {
                None => {
                    assert!(eqv);
                    assert!(a.value(m) == b.value(m));
                }
                Some(w) => {
                    assert!(w < (1usize << F::N));
                    assert!(a.value(w) != b.value(w));
                    assert!(!eqv);
                }
            }
            if eqv {
                assert!(a.value(m) == b.value(m));
            }
            assert!((a.cmp(&b) == Ordering::Equal) == eqv);
            // hashing: equal values feed identical streams
            let mut ha = Rec::<CAP>::new();
            let mut hb = Rec::<CAP>::new();
            a.hash(&mut ha);
            b.hash(&mut hb);
            assert!(ha.len <= CAP && hb.len <= CAP);
            if eqv {
                assert!(ha.len == hb.len);
                let mut i = 0;
                while i < CAP {
                    assert!(ha.buf[i] == hb.buf[i]);
                    i += 1;
                }
            }
            kani::cover!(eqv, "equal pair");
            kani::cover!(!eqv, "different pair");
            kani::cover!(true, "reached");
        }
    };
}

/// Dynamic tables of different sizes never compare equal (even when the blocks coincide) and hash the size.
macro_rules! c02_diffn {
    ($name:ident, $fa:ident, $fb:ident, $u:literal) => {
        #[kani::proof]
        #[kani::unwind($u)]
        pub fn $name() {
            use crate::verif_common::$fa as FA;
            use crate::verif_common::$fb as FB;
            let a = FA::any();
            let b = FB::any();
            assert!(a != b);
            assert!(!(a == b));
            assert!(a.cmp(&b) != Ordering::Equal);
            kani::cover!(FA::T == FB::T && a.blocks()[0] == b.blocks()[0], "same first block");
            kani::cover!(true, "reached");
        }
    };
}

macro_rules! chk {
    ($r:expr, $n:expr) => {{
        assert!(wf($n, $r.blocks()))
    }};
}

/// One step of every operator form from arbitrary well-formed operands keeps the result well-formed.
macro_rules! c02_step_ops {
    ($name:ident, $fam:ident, $u:literal) => {
        #[kani::proof]
        #[kani::unwind($u)]
        pub fn $name() {
            use crate::verif_common::$fam as F;
            let a = F::any();
            let b = F::any();
            let which: u8 = kani::any();
            let mut h = a.clone();
            match which {
                0 => chk!(a.not(), F::N),
                1 => {
                    h.not_inplace();
                    chk!(h, F::N)
                }
                2 => chk!(!a.clone(), F::N),
                3 => chk!(!&a, F::N),
                4 => chk!(a.and(&b), F::N),
                5 => chk!(a.or(&b), F::N),
                6 => chk!(a.xor(&b), F::N),
                7 => {
                    h.and_inplace(&b);
                    chk!(h, F::N)
                }
                8 => {
                    h.or_inplace(&b);
                    chk!(h, F::N)
                }
                9 => {
                    h.xor_inplace(&b);
                    chk!(h, F::N)
                }
                10 => chk!(a.clone() & b.clone(), F::N),
                11 => chk!(a.clone() & &b, F::N),
                12 => chk!(&a & b.clone(), F::N),
                13 => chk!(&a & &b, F::N),
                14 => chk!(a.clone() | b.clone(), F::N),
                15 => chk!(a.clone() | &b, F::N),
                16 => chk!(&a | b.clone(), F::N),
                17 => chk!(&a | &b, F::N),
                18 => chk!(a.clone() ^ b.clone(), F::N),
                19 => chk!(a.clone() ^ &b, F::N),
                20 => chk!(&a ^ b.clone(), F::N),
                21 => chk!(&a ^ &b, F::N),
                22 => {
                    h &= b.clone();
                    chk!(h, F::N)
                }
                23 => {
                    h &= &b;
                    chk!(h, F::N)
                }
                24 => {
                    h |= b.clone();
                    chk!(h, F::N)
                }
                25 => {
                    h |= &b;
                    chk!(h, F::N)
                }
                26 => {
                    h ^= b.clone();
                    chk!(h, F::N)
                }
                27 => {
                    h ^= &b;
                    chk!(h, F::N)
                }
                _ => {}
            }
            kani::cover!(which == 27, "last arm");
            kani::cover!(true, "reached");
        }
    };
}

/// Mutators, variable transforms, cofactoring, recomposition.
macro_rules! c02_step_transforms {
    ($name:ident, $fam:ident, $u:literal) => {
        #[kani::proof]
        #[kani::unwind($u)]
        pub fn $name() {
            use crate::verif_common::$fam as F;
            let a = F::any();
            let b = F::any();
            let which: u8 = kani::any();
            let m = any_m(F::N);
            let mut h = a.clone();
            match which {
                0 => {
                    h.set_bit(m);
                    chk!(h, F::N);
                    assert!(h.value(m));
                }
                1 => {
                    h.unset_bit(m);
                    chk!(h, F::N);
                    assert!(!h.value(m));
                }
                2 => {
                    let v: bool = kani::any();
                    h.set_value(m, v);
                    chk!(h, F::N);
                    assert!(h.value(m) == v);
                    // no other assignment changes
                    let m2 = any_m(F::N);
                    if m2 != m {
                        assert!(h.value(m2) == a.value(m2));
                    }
                }
                _ => {}
            }
            if F::N >= 1 {
                let i = any_var(F::N);
                let j = any_var(F::N);
                match which {
                    3 => chk!(a.flip(i), F::N),
                    4 => {
                        h.flip_inplace(i);
                        chk!(h, F::N)
                    }
                    5 => chk!(a.swap(i, j), F::N),
                    6 => {
                        h.swap_inplace(i, j);
                        chk!(h, F::N)
                    }
                    7 => {
                        if i < F::N - 1 {
                            chk!(h.swap_adjacent(i), F::N);
                            chk!(h, F::N);
                        }
                    }
                    8 => {
                        if i < F::N - 1 {
                            h.swap_adjacent_inplace(i);
                            chk!(h, F::N);
                        }
                    }
                    9 => {
                        let (c0, c1) = a.cofactors(i);
                        chk!(c0, F::N);
                        chk!(c1, F::N);
                    }
                    10 => chk!(<F::L>::from_cofactors(&a, &b, i), F::N),
                    _ => {}
                }
            }
            kani::cover!(which == 2, "set_value arm");
            kani::cover!(true, "reached");
        }
    };
}

/// Constructors with arbitrary parameters, from_blocks round trip, conversions between the two types.
macro_rules! c02_step_ctors {
    ($name:ident, $fam:ident, $u:literal) => {
        #[kani::proof]
        #[kani::unwind($u)]
        pub fn $name() {
            use crate::verif_common::$fam as F;
            let which: u8 = kani::any();
            let k: usize = kani::any();
            match which {
                0 => chk!(F::zero(), F::N),
                1 => chk!(F::one(), F::N),
                2 => {
                    if !F::DYNAMIC {
                        chk!(F::default(), F::N)
                    } else {
                        chk!(F::default(), 0)
                    }
                }
                3 => {
                    if F::N >= 1 {
                        kani::assume(k < F::N);
                        chk!(F::nth_var(k), F::N)
                    }
                }
                4 => chk!(F::parity(), F::N),
                5 => chk!(F::majority(), F::N),
                6 => chk!(F::threshold(k), F::N),
                7 => chk!(F::equals(k), F::N),
                8 => chk!(F::symmetric(k), F::N),
                9 => {
                    let a = F::any();
                    let d = F::to_dyn(&a);
                    assert!(d.num_vars() == F::N);
                    chk!(d, F::N);
                    let mut i = 0;
                    while i < F::T {
                        assert!(d.blocks()[i] == a.blocks()[i]);
                        i += 1;
                    }
                }
                _ => {}
            }
            kani::cover!(which == 8 && k == usize::MAX, "symmetric with all-ones mask");
            kani::cover!(true, "reached");
        }
    };
}

/// Conversion from a dynamic table of every size 0..=6 (concrete loop) with arbitrary well-formed contents:
/// whatever TryFrom accepts must be a well-formed table of THIS size with the same blocks.
macro_rules! c02_step_tryfrom {
    ($name:ident, $fam:ident, $u:literal) => {
        #[kani::proof]
        #[kani::unwind($u)]
        pub fn $name() {
            use crate::verif_common::$fam as F;
            let w: u64 = kani::any();
            let mut np = 0usize;
            while np <= 6 {
                let d = crate::Lut::from_blocks(np, &[w & low_mask(np)]);
                let r = <F::L as std::convert::TryFrom<crate::Lut>>::try_from(d);
                if let Ok(x) = r {
                    assert!(np == F::N);
                    chk!(x, F::N);
                    assert!(x.blocks()[0] == w & low_mask(np));
                } else {
                    assert!(np != F::N);
                }
                np += 1;
            }
            kani::cover!(true, "reached");
        }
    };
}

/// Items handed out by the public iterator are well-formed (first items; the arbitrary-state successor is
/// the kernel lemma k08_next).
macro_rules! c02_step_iter {
    ($name:ident, $fam:ident, $u:literal) => {
        #[kani::proof]
        #[kani::unwind($u)]
        pub fn $name() {
            use crate::verif_common::$fam as F;
            let mut it = F::all_functions();
            let a = it.next().unwrap();
            chk!(a, F::N);
            let b = it.next().unwrap();
            chk!(b, F::N);
            assert!(a != b);
            kani::cover!(true, "reached");
        }
    };
}

// ---- instantiations (generated by /verif/lib/registry.py) ----
