// C03 -- flip, swap, swap_adjacent, cofactors, from_cofactors are exact (public API only).
use crate::verif_common::*;

fn eq_blocks(a: &[u64], b: &[u64]) -> bool {
    if a.len() != b.len() {
        return false;
    }
    let mut i = 0;
    while i < a.len() {
        if a[i] != b[i] {
            return false;
        }
        i += 1;
    }
    true
}

macro_rules! c03_flip {
    ($name:ident, $fam:ident, $u:literal) => {
        #[kani::proof]
        #[kani::unwind($u)]
        pub fn $name() {
            use crate::verif_common::$fam as F;
            let bf = any_blocks::<{ F::T }>(F::N);
            let f = F::mk(&bf);
            let i = any_var(F::N);
            let m = any_m(F::N);
            let g = f.flip(i);
            assert!(wf(F::N, g.blocks()));
            assert!(bit(g.blocks(), m) == bit(&bf, m ^ (1usize << i)));
            let mut h = f.clone();
            h.flip_inplace(i);
            assert!(eq_blocks(h.blocks(), g.blocks()));
            assert!(eq_blocks(f.blocks(), &bf));
            kani::cover!(i <= 5, "in-word index");
            kani::cover!(i >= 6, "cross-word index");
            kani::cover!(true, "reached");
        }
    };
}

macro_rules! c03_swap {
    ($name:ident, $fam:ident, $u:literal) => {
        #[kani::proof]
        #[kani::unwind($u)]
        pub fn $name() {
            use crate::verif_common::$fam as F;
            let bf = any_blocks::<{ F::T }>(F::N);
            let f = F::mk(&bf);
            let i = any_var(F::N);
            let j = any_var(F::N);
            let m = any_m(F::N);
            let g = f.swap(i, j);
            assert!(wf(F::N, g.blocks()));
            assert!(bit(g.blocks(), m) == bit(&bf, swap_bits(m, i, j)));
            let mut h = f.clone();
            h.swap_inplace(i, j);
            assert!(eq_blocks(h.blocks(), g.blocks()));
            assert!(eq_blocks(f.blocks(), &bf));
            kani::cover!(i == j, "same index");
            kani::cover!(i != j && i <= 5 && j <= 5, "both in-word");
            kani::cover!((i <= 5) != (j <= 5), "one in-word one cross-word");
            kani::cover!(i != j && i >= 6 && j >= 6, "both cross-word");
            kani::cover!(true, "reached");
        }
    };
}

macro_rules! c03_swap_adjacent {
    ($name:ident, $fam:ident, $u:literal) => {
        #[kani::proof]
        #[kani::unwind($u)]
        pub fn $name() {
            use crate::verif_common::$fam as F;
            let bf = any_blocks::<{ F::T }>(F::N);
            let f = F::mk(&bf);
            let i: usize = kani::any();
            kani::assume(i < F::N - 1);
            let m = any_m(F::N);
            let mut f2 = f.clone();
            let g = f2.swap_adjacent(i);
            assert!(eq_blocks(f2.blocks(), &bf));
            assert!(wf(F::N, g.blocks()));
            assert!(bit(g.blocks(), m) == bit(&bf, swap_bits(m, i, i + 1)));
            let mut h = f.clone();
            h.swap_adjacent_inplace(i);
            assert!(eq_blocks(h.blocks(), g.blocks()));
            let s = f.swap(i, i + 1);
            assert!(eq_blocks(s.blocks(), g.blocks()));
            kani::cover!(i == 5, "straddles the word boundary");
            kani::cover!(true, "reached");
        }
    };
}

macro_rules! c03_cofactors {
    ($name:ident, $fam:ident, $u:literal) => {
        #[kani::proof]
        #[kani::unwind($u)]
        pub fn $name() {
            use crate::verif_common::$fam as F;
            let bf = any_blocks::<{ F::T }>(F::N);
            let f = F::mk(&bf);
            let i = any_var(F::N);
            let m = any_m(F::N);
            let (c0, c1) = f.cofactors(i);
            assert!(wf(F::N, c0.blocks()));
            assert!(wf(F::N, c1.blocks()));
            assert!(bit(c0.blocks(), m) == bit(&bf, m & !(1usize << i)));
            assert!(bit(c1.blocks(), m) == bit(&bf, m | (1usize << i)));
            // independence of x_i is implied by the two equalities above (m and m^(1<<i) map to the same source bit)
            assert!(eq_blocks(f.blocks(), &bf));
            // Shannon recomposition gives f back
            let r = F::L::from_cofactors(&c0, &c1, i);
            assert!(eq_blocks(r.blocks(), &bf));
            kani::cover!(i <= 5, "in-word index");
            kani::cover!(i >= 6, "cross-word index");
            kani::cover!(true, "reached");
        }
    };
}

macro_rules! c03_from_cofactors {
    ($name:ident, $fam:ident, $u:literal) => {
        #[kani::proof]
        #[kani::unwind($u)]
        pub fn $name() {
            use crate::verif_common::$fam as F;
            let b0 = any_blocks::<{ F::T }>(F::N);
            let b1 = any_blocks::<{ F::T }>(F::N);
            let c0 = F::mk(&b0);
            let c1 = F::mk(&b1);
            let i = any_var(F::N);
            let m = any_m(F::N);
            let r = F::L::from_cofactors(&c0, &c1, i);
            assert!(wf(F::N, r.blocks()));
            let exp = if (m >> i) & 1 == 1 { bit(&b1, m) } else { bit(&b0, m) };
            assert!(bit(r.blocks(), m) == exp);
            assert!(eq_blocks(c0.blocks(), &b0));
            assert!(eq_blocks(c1.blocks(), &b1));
            kani::cover!(i <= 5, "in-word index");
            kani::cover!(i >= 6, "cross-word index");
            kani::cover!(true, "reached");
        }
    };
}

/// Large tables (n >= 9): the same obligations with CONCRETE indices, one harness per index (pair) -- the
/// symbolic-index query at n = 11, 12 takes 30-50 min or runs out of memory, a concrete index takes seconds.
/// $op: 0 flip(i), 1 cofactors(i) + recomposition, 2 from_cofactors(c0, c1, i), 3 swap(i, j) (+ swap_adjacent if j == i + 1)
macro_rules! c03_fixed {
    ($name:ident, $fam:ident, $op:literal, $i:literal, $j:literal, $u:literal) => {
        #[kani::proof]
        #[kani::unwind($u)]
        pub fn $name() {
            use crate::verif_common::$fam as F;
            let bf = any_blocks::<{ F::T }>(F::N);
            let f = F::mk(&bf);
            let i: usize = $i;
            let j: usize = $j;
            let m = any_m(F::N);
            if $op == 0 {
                let g = f.flip(i);
                assert!(wf(F::N, g.blocks()));
                assert!(bit(g.blocks(), m) == bit(&bf, m ^ (1usize << i)));
                let mut h = f.clone();
                h.flip_inplace(i);
                assert!(eq_blocks(h.blocks(), g.blocks()));
            } else if $op == 1 {
                let (c0, c1) = f.cofactors(i);
                assert!(bit(c0.blocks(), m) == bit(&bf, m & !(1usize << i)));
                assert!(bit(c1.blocks(), m) == bit(&bf, m | (1usize << i)));
                let r = <F::L>::from_cofactors(&c0, &c1, i);
                assert!(eq_blocks(r.blocks(), &bf));
            } else if $op == 2 {
                let b1 = any_blocks::<{ F::T }>(F::N);
                let c1 = F::mk(&b1);
                let r = <F::L>::from_cofactors(&f, &c1, i);
                let exp = if (m >> i) & 1 == 1 { bit(&b1, m) } else { bit(&bf, m) };
                assert!(bit(r.blocks(), m) == exp);
            } else {
                let g = f.swap(i, j);
                assert!(wf(F::N, g.blocks()));
                assert!(bit(g.blocks(), m) == bit(&bf, swap_bits(m, i, j)));
                let g2 = f.swap(j, i);
                assert!(eq_blocks(g2.blocks(), g.blocks()));
                let mut h = f.clone();
                h.swap_inplace(i, j);
                assert!(eq_blocks(h.blocks(), g.blocks()));
                if j == i + 1 {
                    let mut f2 = f.clone();
                    let a = f2.swap_adjacent(i);
                    assert!(eq_blocks(a.blocks(), g.blocks()));
                }
            }
            assert!(eq_blocks(f.blocks(), &bf));
            kani::cover!(true, "reached");
        }
    };
}

// ---- instantiations (generated by /verif/lib/registry.py) ----
