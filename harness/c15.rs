// C15 -- Esop semantics: operators on constructor-built forms, and the Lut -> Esop conversion is the
// positive-polarity Reed-Muller (ANF) form.  Public API only.
use crate::sop::{Cube, Esop};
use crate::verif_common::*;
use crate::Lut;

/// A literal operand; the KIND is concrete (0 zero, 1 one, 2 x_i, 3 !x_i), the index symbolic (see c13.rs).
fn lit(n: usize, kind: u8, m: u32) -> (Esop, bool) {
    if kind == 0 {
        return (Esop::zero(n), false);
    }
    if kind == 1 {
        return (Esop::one(n), true);
    }
    let i: usize = kani::any();
    kani::assume(i < n);
    if kind == 2 {
        (Esop::nth_var(n, i), (m >> i) & 1 == 1)
    } else {
        (Esop::nth_var_inv(n, i), (m >> i) & 1 == 0)
    }
}

macro_rules! c15_ops {
    ($name:ident, $n:literal, $k0:literal, $k1:literal, $k2:literal, $u:literal) => {
        #[kani::proof]
        #[kani::unwind($u)]
        pub fn $name() {
            const N: usize = $n;
            let m = any_m(N);
            let mm = m as u32;
            let (p0, e0) = lit(N, $k0, mm);
            let (p1, e1) = lit(N, $k1, mm);
            let (p2, e2) = lit(N, $k2, mm);
            assert!(p0.value(m) == e0 && p1.value(m) == e1 && p2.value(m) == e2);
            // xor, four reference forms
            let ab = &p0 ^ &p1;
            let ab2 = p0.clone() ^ p1.clone();
            let ab3 = &p0 ^ p1.clone();
            let ab4 = p0.clone() ^ &p1;
            assert!(ab == ab2 && ab == ab3 && ab == ab4);
            assert!(ab.value(m) == (e0 ^ e1));
            // complement, two forms
            let nab = !&ab;
            let nab2 = !ab.clone();
            assert!(nab == nab2);
            assert!(nab.value(m) == !(e0 ^ e1));
            let s = &nab ^ &p2;
            let exp = !(e0 ^ e1) ^ e2;
            assert!(s.num_vars() == N);
            assert!(s.value(m) == exp);
            // tabulation
            let l = Lut::from(&s);
            assert!(l.num_vars() == N);
            assert!(wf(N, l.blocks()));
            assert!(l.value(m) == exp);
            // is_zero / is_one only for the respective constants
            if s.is_zero() {
                assert!(!exp);
            }
            if s.is_one() {
                assert!(exp);
            }
            if ab.is_zero() {
                assert!(!(e0 ^ e1));
            }
            if ab.is_one() {
                assert!(e0 ^ e1);
            }
            if nab.is_one() {
                assert!(!(e0 ^ e1));
            }
            kani::cover!(exp, "evaluates to true");
            kani::cover!(!exp, "evaluates to false");
            kani::cover!(true, "reached");
        }
    };
}

/// ANF coefficient of f for the monomial S: XOR of f over all assignments contained in S.
fn anf_coeff(b: &[u64], n: usize, s: usize) -> bool {
    let mut c = false;
    let mut a = 0usize;
    while a < (1usize << n) {
        if a & !s == 0 && bit(b, a) {
            c = !c;
        }
        a += 1;
    }
    c
}

/// Conversion: cube S occurs exactly coeff(S) times, every cube is all-positive over variables < n.
/// Symbolic f and symbolic S.  ($val: also check value(m) == f(m) for a symbolic m, is_zero / is_one.)
/// The scan over the cube list has a concrete trip count (2^n >= number of cubes) and the results are
/// forgotten instead of dropped: both matter by an order of magnitude for CBMC.
macro_rules! c15_conv {
    ($name:ident, $fam:ident, $val:literal, $u:literal) => {
        #[kani::proof]
        #[kani::unwind($u)]
        pub fn $name() {
            use crate::verif_common::$fam as F;
            let b = any_blocks::<{ F::T }>(F::N);
            let f = Lut::from_blocks(F::N, &b);
            let e = Esop::from(&f);
            let s = any_m(F::N);
            let target = Cube::from_mask(s as u32, 0);
            let cubes = e.cubes();
            let len = cubes.len();
            assert!(len == e.num_cubes());
            assert!(len <= (1usize << F::N));
            assert!(e.num_vars() == F::N);
            let mut count = 0usize;
            let mut k = 0;
            while k < (1usize << F::N) {
                if k < len {
                    let c = cubes[k];
                    if c == target {
                        count += 1;
                    }
                    // all-positive cube over variables < n: satisfied by "all variables < n true, the
                    // others false" (no negative literal below n, no positive literal at or above n) and
                    // by "all 32 variables true" (no negative literal anywhere)
                    assert!(c.value((1usize << F::N) - 1));
                    assert!(c.value(0xffff_ffffusize));
                }
                k += 1;
            }
            assert!(count == if anf_coeff(&b, F::N, s) { 1 } else { 0 });
            if $val {
                let m = any_m(F::N);
                assert!(e.value(m) == bit(&b, m));
                if e.is_zero() {
                    assert!(!bit(&b, m));
                }
                if e.is_one() {
                    assert!(bit(&b, m));
                }
            }
            kani::cover!(count == 1, "monomial present");
            kani::cover!(count == 0, "monomial absent");
            kani::cover!(true, "reached");
            std::mem::forget(e);
            std::mem::forget(f);
        }
    };
}

/// Converting back gives the function (separate, heavier: Lut::from(&Esop) walks the symbolic-length list).
macro_rules! c15_conv_back {
    ($name:ident, $fam:ident, $u:literal) => {
        #[kani::proof]
        #[kani::unwind($u)]
        pub fn $name() {
            use crate::verif_common::$fam as F;
            let b = any_blocks::<{ F::T }>(F::N);
            let f = Lut::from_blocks(F::N, &b);
            let e = Esop::from(&f);
            let back = Lut::from(&e);
            assert!(back.num_vars() == F::N);
            assert!(back.blocks()[0] == b[0]);
            kani::cover!(true, "reached");
            std::mem::forget(back);
            std::mem::forget(e);
            std::mem::forget(f);
        }
    };
}

// ---- instantiations (generated by /verif/lib/registry.py) ----
