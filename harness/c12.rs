// C12 -- cube algebra is semantic.  Public API only.  Cubes range over ALL 32 variables: they are
// built with Cube::from_mask(p, q) for arbitrary u32 p, q (surjective onto every cube value the API
// can produce, since every constructor normalises contradictions to the one zero cube).
use crate::sop::Cube;
use crate::verif_common::*;
use crate::Lut;

/// Definition of the value of the cube (p, q) on assignment m.
fn spec_value(p: u32, q: u32, m: u32) -> bool {
    p & q == 0 && p & !m == 0 && q & m == 0
}

#[kani::proof]
pub fn c12_value_and() {
    let (p, q, r, s): (u32, u32, u32, u32) = (kani::any(), kani::any(), kani::any(), kani::any());
    let m: u32 = kani::any();
    let a = Cube::from_mask(p, q);
    let b = Cube::from_mask(r, s);
    assert!(a.value(m as usize) == spec_value(p, q, m));
    assert!(b.value(m as usize) == spec_value(r, s, m));
    assert!(a.is_zero() == (p & q != 0));
    assert!((a == Cube::zero()) == (p & q != 0));
    assert!(a.is_one() == (p == 0 && q == 0));
    assert!(a.is_constant() == (a.is_zero() || a.is_one()));
    // conjunction, all four reference forms
    let c1 = a & b;
    let c2 = &a & b;
    let c3 = &a & &b;
    let c4 = a & &b;
    assert!(c1 == c2 && c2 == c3 && c3 == c4);
    assert!(c1.value(m as usize) == (a.value(m as usize) && b.value(m as usize)));
    // every contradictory result is the one canonical zero cube
    let contradictory = p & q != 0 || r & s != 0 || (p | r) & (q | s) != 0;
    assert!((c1 == Cube::zero()) == contradictory);
    assert!(c1.is_zero() == contradictory);
    if !contradictory {
        assert!(c1 == Cube::from_mask(p | r, q | s));
    }
    kani::cover!(contradictory && p & q == 0 && r & s == 0, "contradiction created by the conjunction");
    kani::cover!(c1.value(m as usize), "conjunction satisfied");
    kani::cover!(true, "reached");
}

/// Equality is semantic equality: a == b iff no assignment distinguishes them (witness among 4 candidates).
#[kani::proof]
pub fn c12_eq_semantic() {
    let (p, q, r, s): (u32, u32, u32, u32) = (kani::any(), kani::any(), kani::any(), kani::any());
    let m: u32 = kani::any();
    let a = Cube::from_mask(p, q);
    let b = Cube::from_mask(r, s);
    let eqv = a == b;
    if eqv {
        assert!(a.value(m as usize) == b.value(m as usize));
    } else {
        let cands = [p, r, !q, !s];
        let mut found = false;
        let mut i = 0;
        while i < 4 {
            if a.value(cands[i] as usize) != b.value(cands[i] as usize) {
                found = true;
            }
            i += 1;
        }
        assert!(found);
    }
    kani::cover!(eqv && p != r, "equal although built from different masks (both zero)");
    kani::cover!(!eqv, "different");
    kani::cover!(true, "reached");
}

#[kani::proof]
pub fn c12_implies_intersects() {
    let (p, q, r, s): (u32, u32, u32, u32) = (kani::any(), kani::any(), kani::any(), kani::any());
    let m: u32 = kani::any();
    let a = Cube::from_mask(p, q);
    let b = Cube::from_mask(r, s);
    let av = a.value(m as usize);
    let bv = b.value(m as usize);
    // implies: sound for every assignment, complete by Skolem witnesses
    if a.implies(b) {
        assert!(!av || bv);
    } else {
        let w0 = p as usize;
        let w1 = !q as usize;
        assert!((a.value(w0) && !b.value(w0)) || (a.value(w1) && !b.value(w1)));
    }
    // intersects: complete by witness p|r, sound for every assignment
    if a.intersects(b) {
        let w = (p | r) as usize;
        assert!(a.value(w) && b.value(w));
    } else {
        assert!(!(av && bv));
    }
    kani::cover!(a.implies(b) && !a.is_zero() && a != b, "proper implication");
    kani::cover!(!a.implies(b) && a.intersects(b), "overlap without implication");
    kani::cover!(a.is_zero() && a.implies(b), "zero implies everything");
    kani::cover!(true, "reached");
}

#[kani::proof]
#[kani::unwind(5)]
pub fn c12_constructors_counts() {
    let m: u32 = kani::any();
    // minterm over n <= 31 variables (n = 32 is probed separately)
    let n: usize = kani::any();
    kani::assume(n <= 31);
    let x: usize = kani::any();
    let mt = Cube::minterm(n, x);
    let low = (1u32 << n) - 1;
    assert!(mt.value(m as usize) == ((m ^ (x as u32)) & low == 0));
    assert!(mt == Cube::from_mask((x as u32) & low, !(x as u32) & low));
    assert!(mt.num_lits() == n);
    // literals
    let i: usize = kani::any();
    kani::assume(i < 32);
    assert!(Cube::nth_var(i).value(m as usize) == ((m >> i) & 1 == 1));
    assert!(Cube::nth_var_inv(i).value(m as usize) == ((m >> i) & 1 == 0));
    assert!(Cube::nth_var(i) == Cube::from_mask(1 << i, 0));
    assert!(Cube::nth_var_inv(i) == Cube::from_mask(0, 1 << i));
    assert!(Cube::one().value(m as usize));
    assert!(!Cube::zero().value(m as usize));
    // from_vars against from_mask (slices of up to 3 symbolic indices)
    let v: [usize; 3] = kani::any();
    let w: [usize; 3] = kani::any();
    kani::assume(v[0] < 32 && v[1] < 32 && v[2] < 32 && w[0] < 32 && w[1] < 32 && w[2] < 32);
    let lp: usize = kani::any();
    let ln: usize = kani::any();
    kani::assume(lp <= 3 && ln <= 3);
    let mut pm = 0u32;
    let mut k = 0;
    while k < lp {
        pm |= 1 << v[k];
        k += 1;
    }
    let mut nm = 0u32;
    let mut k = 0;
    while k < ln {
        nm |= 1 << w[k];
        k += 1;
    }
    assert!(Cube::from_vars(&v[..lp], &w[..ln]) == Cube::from_mask(pm, nm));
    // counts
    let (p, q): (u32, u32) = (kani::any(), kani::any());
    let c = Cube::from_mask(p, q);
    let lits = if p & q != 0 { 0 } else { (p.count_ones() + q.count_ones()) as usize };
    assert!(c.num_lits() == lits);
    assert!(c.num_gates() == if lits == 0 { 0 } else { lits - 1 });
    kani::cover!(n == 31, "31-variable minterm");
    kani::cover!(n == 0, "0-variable minterm");
    kani::cover!(lp == 3 && ln == 3 && pm & nm != 0, "contradictory from_vars");
    kani::cover!(true, "reached");
}

/// minterm over all 32 variables (1u32 << 32 in the implementation).
#[kani::proof]
pub fn c12_minterm32() {
    let m: u32 = kani::any();
    let x: usize = kani::any();
    let mt = Cube::minterm(32, x);
    assert!(mt.value(m as usize) == (m == x as u32));
    kani::cover!(true, "reached");
}

/// Cube::all(n): every non-zero cube over variables < n exactly once, nothing else, 3^n items.
macro_rules! c12_all {
    ($name:ident, $n:literal, $u:literal) => {
        #[kani::proof]
        #[kani::unwind($u)]
        pub fn $name() {
            const N: usize = $n;
            let (p, q): (u32, u32) = (kani::any(), kani::any());
            let c = Cube::from_mask(p, q);
            let low: u32 = (1u32 << N) - 1;
            let mut count = 0usize;
            let mut total = 0usize;
            for x in Cube::all(N) {
                if x == c {
                    count += 1;
                }
                assert!(!x.is_zero());
                total += 1;
            }
            let mut pow3 = 1usize;
            let mut k = 0;
            while k < N {
                pow3 *= 3;
                k += 1;
            }
            assert!(total == pow3);
            let expected = if p & q == 0 && (p | q) & !low == 0 { 1 } else { 0 };
            assert!(count == expected);
            kani::cover!(expected == 1, "cube inside the enumeration");
            kani::cover!(expected == 0, "cube outside the enumeration");
            kani::cover!(true, "reached");
        }
    };
}

/// implies_lut(f) iff the cube is an implicant of f.
macro_rules! c12_implies_lut {
    ($name:ident, $fam:ident, $u:literal) => {
        #[kani::proof]
        #[kani::unwind($u)]
        pub fn $name() {
            use crate::verif_common::$fam as F;
            let b = any_blocks::<{ F::T }>(F::N);
            let f = Lut::from_blocks(F::N, &b);
            let (p, q): (u32, u32) = (kani::any(), kani::any());
            let c = Cube::from_mask(p, q);
            let r = c.implies_lut(&f);
            let m = any_m(F::N);
            if r {
                // sound: every assignment of the cube is an assignment of f
                assert!(!spec_value(p, q, m as u32) || bit(&b, m));
            } else {
                // complete: the definitional scan finds a counterexample
                let mut found = false;
                let mut x = 0usize;
                while x < (1usize << F::N) {
                    if spec_value(p, q, x as u32) && !bit(&b, x) {
                        found = true;
                    }
                    x += 1;
                }
                assert!(found);
            }
            kani::cover!(r && p & q == 0, "non-zero implicant");
            kani::cover!(!r, "not an implicant");
            kani::cover!(true, "reached");
        }
    };
}

// ---- instantiations (generated by /verif/lib/registry.py) ----
