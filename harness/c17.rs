// C17 -- invalid indices / assignments / sizes / slice lengths panic in every build profile; valid
// arguments never trip a debug-only check (public API only).
//
// `must_panic` harnesses: the invalid argument is the FIRST symbolic value (the native replay sweeps
// it over the whole range when Kani's `rel` configuration reports an overflow-dependent panic), a
// symbolic selector picks the method, cover CALLED precedes the call and cover RETURNED follows it.
// The property holds iff RETURNED is unreachable in both configurations.
use crate::verif_common::*;

macro_rules! c17_index {
    ($name:ident, $fam:ident, $u:literal) => {
        #[kani::proof]
        #[kani::unwind($u)]
        pub fn $name() {
            use crate::verif_common::$fam as F;
            let i: usize = kani::any();
            let which: u8 = kani::any();
            kani::assume(i >= F::N && (i <= F::N + 70 || i == usize::MAX));
            let i2: usize = kani::any();
            kani::assume(i2 >= F::N && (i2 <= F::N + 70 || i2 == usize::MAX));
            // a valid partner index when one exists, otherwise another invalid one
            let j: usize = if F::N > 0 { any_var(F::N) } else { i2 };
            // swap_adjacent(k) is invalid as soon as k + 1 >= n
            let ia: usize = if F::N >= 1 && i != usize::MAX { i - 1 } else { i };
            let f = F::any();
            let g = F::any();
            kani::cover!(true, "CALLED");
            match which {
                0 => {
                    let _ = F::nth_var(i);
                }
                1 => {
                    let _ = f.flip(i);
                }
                2 => {
                    let mut h = f.clone();
                    h.flip_inplace(i);
                }
                3 => {
                    let _ = f.swap(i, j);
                }
                4 => {
                    let _ = f.swap(j, i);
                }
                5 => {
                    let mut h = f.clone();
                    h.swap_inplace(i, j);
                }
                6 => {
                    let mut h = f.clone();
                    h.swap_inplace(j, i);
                }
                7 => {
                    let _ = f.swap(i, i2);
                }
                8 => {
                    let mut h = f.clone();
                    let _ = h.swap_adjacent(ia);
                }
                9 => {
                    let mut h = f.clone();
                    h.swap_adjacent_inplace(ia);
                }
                10 => {
                    let _ = f.cofactors(i);
                }
                11 => {
                    let _ = <F::L>::from_cofactors(&f, &g, i);
                }
                12 => {
                    let _ = f.top_decomposition(i);
                }
                13 => {
                    let _ = f.is_pos_unate(i);
                }
                14 => {
                    let _ = f.is_neg_unate(i);
                }
                _ => {
                    kani::assume(false);
                }
            }
            kani::cover!(true, "RETURNED");
        }
    };
}

macro_rules! c17_assign {
    ($name:ident, $fam:ident, $u:literal) => {
        #[kani::proof]
        #[kani::unwind($u)]
        pub fn $name() {
            use crate::verif_common::$fam as F;
            let m: usize = kani::any();
            let which: u8 = kani::any();
            let nb: usize = 1usize << F::N;
            kani::assume(m >= nb && (m <= nb + 70 || m == usize::MAX));
            let f = F::any();
            kani::cover!(true, "CALLED");
            match which {
                0 => {
                    let _ = f.value(m);
                }
                1 => {
                    let _ = f.get_bit(m);
                }
                2 => {
                    let mut h = f.clone();
                    h.set_bit(m);
                }
                3 => {
                    let mut h = f.clone();
                    h.unset_bit(m);
                }
                4 => {
                    let mut h = f.clone();
                    h.set_value(m, true);
                }
                5 => {
                    let mut h = f.clone();
                    h.set_value(m, false);
                }
                _ => {
                    kani::assume(false);
                }
            }
            kani::cover!(true, "RETURNED");
        }
    };
}

/// Dynamic tables of different sizes.
macro_rules! c17_mismatch {
    ($name:ident, $fa:ident, $fb:ident, $u:literal) => {
        #[kani::proof]
        #[kani::unwind($u)]
        pub fn $name() {
            use crate::verif_common::$fa as FA;
            use crate::verif_common::$fb as FB;
            let which: u8 = kani::any();
            let a = FA::any();
            let b = FB::any();
            let mut h = a.clone();
            kani::cover!(true, "CALLED");
            match which {
                0 => {
                    let _ = a.and(&b);
                }
                1 => {
                    let _ = a.or(&b);
                }
                2 => {
                    let _ = a.xor(&b);
                }
                3 => {
                    h.and_inplace(&b);
                }
                4 => {
                    h.or_inplace(&b);
                }
                5 => {
                    h.xor_inplace(&b);
                }
                6 => {
                    let _ = a.clone() & b.clone();
                }
                7 => {
                    let _ = a.clone() & &b;
                }
                8 => {
                    let _ = &a & b.clone();
                }
                9 => {
                    let _ = &a & &b;
                }
                10 => {
                    let _ = a.clone() | b.clone();
                }
                11 => {
                    let _ = a.clone() | &b;
                }
                12 => {
                    let _ = &a | b.clone();
                }
                13 => {
                    let _ = &a | &b;
                }
                14 => {
                    let _ = a.clone() ^ b.clone();
                }
                15 => {
                    let _ = a.clone() ^ &b;
                }
                16 => {
                    let _ = &a ^ b.clone();
                }
                17 => {
                    let _ = &a ^ &b;
                }
                18 => {
                    h &= b.clone();
                }
                19 => {
                    h &= &b;
                }
                20 => {
                    h |= b.clone();
                }
                21 => {
                    h |= &b;
                }
                22 => {
                    h ^= b.clone();
                }
                23 => {
                    h ^= &b;
                }
                24 => {
                    // an index that is valid for the smaller of the two tables (if any variable exists)
                    let _ = crate::Lut::from_cofactors(&a, &b, 0);
                }
                25 => {
                    let _ = crate::Lut::bdd_complexity(&[a.clone(), b.clone()]);
                }
                _ => {
                    kani::assume(false);
                }
            }
            kani::cover!(true, "RETURNED");
        }
    };
}

/// Block slices of the wrong length.
macro_rules! c17_blocks {
    ($name:ident, $fam:ident, $u:literal) => {
        #[kani::proof]
        #[kani::unwind($u)]
        pub fn $name() {
            use crate::verif_common::$fam as F;
            let len: usize = kani::any();
            kani::assume(len <= F::T + 2 && len != F::T);
            let arr: [u64; F::T + 2] = [0u64; F::T + 2];
            kani::cover!(true, "CALLED");
            let _ = F::mk(&arr[..len]);
            kani::cover!(true, "RETURNED");
        }
    };
}

/// Valid arguments: no debug-only check (debug_assert!, rustc overflow check) can fire, hence the
/// debug and release builds compute the same thing.  Every index-taking method, symbolic in-range arguments.
macro_rules! c17_valid {
    ($name:ident, $fam:ident, $u:literal) => {
        #[kani::proof]
        #[kani::unwind($u)]
        pub fn $name() {
            use crate::verif_common::$fam as F;
            let f = F::any();
            let g = F::any();
            let m = any_m(F::N);
            let which: u8 = kani::any();
            let mut h = f.clone();
            let _ = f.value(m);
            let _ = f.get_bit(m);
            h.set_bit(m);
            h.unset_bit(m);
            h.set_value(m, which & 1 == 1);
            if F::N >= 1 {
                let i = any_var(F::N);
                let j = any_var(F::N);
                match which {
                    0 => {
                        let _ = F::nth_var(i);
                    }
                    1 => {
                        let _ = f.flip(i);
                        h.flip_inplace(i);
                    }
                    2 => {
                        let _ = f.swap(i, j);
                        h.swap_inplace(i, j);
                    }
                    3 => {
                        if i + 1 < F::N {
                            let _ = h.swap_adjacent(i);
                            h.swap_adjacent_inplace(i);
                        }
                    }
                    4 => {
                        let _ = f.cofactors(i);
                    }
                    5 => {
                        let _ = <F::L>::from_cofactors(&f, &g, i);
                    }
                    6 => {
                        let _ = f.top_decomposition(i);
                    }
                    7 => {
                        let _ = f.is_pos_unate(i);
                        let _ = f.is_neg_unate(i);
                    }
                    _ => {}
                }
            }
            let _ = f.and(&g);
            let _ = &f | &g;
            h ^= &g;
            let _ = !&f;
            let _ = f.cmp(&g);
            kani::cover!(true, "reached");
        }
    };
}

// ---- instantiations (generated by /verif/lib/registry.py) ----
