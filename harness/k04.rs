
// ---------------------------------------------------------------------------------------------
// Kernel-level part of C04 / C05 (appended to c04.rs to form module verif_k04; names private functions,
// so a compile failure here means "anchor not found, lemma skipped", never a violation).
// ---------------------------------------------------------------------------------------------

/// Lean stand-in for operations::cmp (which is `iter().rev().cmp(..)`, ~7000 symex steps per call):
/// most-significant-word-first comparison by index.  Used through `-Z stubbing` in the end-to-end
/// harnesses of the quick tier; k04_cmp_equiv proves it equal to the real function.
pub fn s_cmp(table1: &[u64], table2: &[u64]) -> std::cmp::Ordering {
    let mut i = table1.len();
    while i > 0 {
        i -= 1;
        if table1[i] < table2[i] {
            return std::cmp::Ordering::Less;
        }
        if table1[i] > table2[i] {
            return std::cmp::Ordering::Greater;
        }
    }
    std::cmp::Ordering::Equal
}

/// Equivalence lemma: operations::cmp == s_cmp on arbitrary equal-length slices of T words.
macro_rules! k04_cmp_equiv {
    ($name:ident, $t:literal, $u:literal) => {
        #[kani::proof]
        #[kani::unwind($u)]
        pub fn $name() {
            let a: [u64; $t] = kani::any();
            let b: [u64; $t] = kani::any();
            assert!(crate::operations::cmp(&a, &b) == s_cmp(&a, &b));
            kani::cover!(crate::operations::cmp(&a, &b) == std::cmp::Ordering::Less, "less");
            kani::cover!(true, "reached");
        }
    };
}

fn eqb<const T: usize>(a: &[u64; T], b: &[u64]) -> bool {
    let mut i = 0;
    while i < T {
        if a[i] != b[i] {
            return false;
        }
        i += 1;
    }
    true
}

/// L1 walk lemma, P: `p_canonization_ind` over an ARBITRARY swap sequence of length <= 2 leaves the table as
/// the full product, `best` as the minimum of the input and the visited candidates (first strict
/// improvement), and `p_canonization_res` decodes the returned index into a permutation that maps the
/// input to `best` (checked pointwise on a symbolic assignment) -- including "no candidate improves".
/// Candidates are computed with the public swap (exact by C03).
macro_rules! k04_walk_p {
    ($name:ident, $n:literal, $t:literal, $maxlen:literal, $u:literal) => {
        #[kani::proof]
        #[kani::unwind($u)]
        pub fn $name() {
            const N: usize = $n;
            const T: usize = $t;
            type L = crate::StaticLut<N, T>;
            let t0 = any_blocks::<T>(N);
            let seq: [u8; 2] = kani::any();
            kani::assume((seq[0] as usize) < N - 1 && (seq[1] as usize) < N - 1);
            let len: usize = kani::any();
            kani::assume(len <= $maxlen);
            let mut table = t0;
            let mut best = [0u64; T];
            let ind = crate::canonization::p_canonization_ind(N, &mut table, &mut best, &seq[..len]);
            let f = L::from_blocks(&t0);
            let c1 = f.swap(seq[0] as usize, seq[0] as usize + 1);
            let c2 = c1.swap(seq[1] as usize, seq[1] as usize + 1);
            let mut b = f;
            let mut i = 0usize;
            if len >= 1 && c1 < b {
                b = c1;
                i = 1;
            }
            if len >= 2 && c2 < b {
                b = c2;
                i = 2;
            }
            let fin = if len == 0 { f } else if len == 1 { c1 } else { c2 };
            assert!(eqb(&table, fin.blocks()));
            assert!(eqb(&best, b.blocks()));
            assert!(ind == i);
            // decode
            let mut perm = [0u8; N];
            crate::canonization::p_canonization_res(N, &mut perm, &seq[..len], ind);
            assert!(is_perm(&perm, N));
            let y = any_m(N);
            let mut x = 0usize;
            let mut k = 0;
            while k < N {
                x |= ((y >> k) & 1) << (perm[k] as usize);
                k += 1;
            }
            assert!(bit(&best, y) == bit(&t0, x));
            kani::cover!(ind == 0 && len == $maxlen, "no candidate improves");
            kani::cover!(ind == $maxlen, "last candidate is the best");
            kani::cover!(true, "reached");
        }
    };
}

/// L1 walk lemma with a CONCRETE one-step sequence on a large table (3+ words): exercises the comparison and
/// the bookkeeping of the walks on multi-word tables at a cost the quick tier can afford (a symbolic step
/// index at n = 8 costs 20-30 min).  $grp: 0 = P (swap $s, $s+1), 1 = N (flip $s).
macro_rules! k04_walk_fixed {
    ($name:ident, $n:literal, $t:literal, $grp:literal, $s:literal, $u:literal) => {
        #[kani::proof]
        #[kani::unwind($u)]
        pub fn $name() {
            const N: usize = $n;
            const T: usize = $t;
            type L = crate::StaticLut<N, T>;
            let t0 = any_blocks::<T>(N);
            let seq: [u8; 1] = [$s];
            let mut table = t0;
            let mut best = [0u64; T];
            let f = L::from_blocks(&t0);
            let y = any_m(N);
            if $grp == 0 {
                let ind = crate::canonization::p_canonization_ind(N, &mut table, &mut best, &seq);
                let c1 = f.swap($s, $s + 1);
                let (b, i) = if c1 < f { (c1, 1usize) } else { (f, 0usize) };
                assert!(eqb(&table, c1.blocks()));
                assert!(eqb(&best, b.blocks()));
                assert!(ind == i);
                let mut perm = [0u8; N];
                crate::canonization::p_canonization_res(N, &mut perm, &seq, ind);
                assert!(is_perm(&perm, N));
                let mut x = 0usize;
                let mut k = 0;
                while k < N {
                    x |= ((y >> k) & 1) << (perm[k] as usize);
                    k += 1;
                }
                assert!(bit(&best, y) == bit(&t0, x));
                kani::cover!(ind == 1, "P: the candidate improves");
                kani::cover!(ind == 0, "P: no candidate improves");
            } else {
                let ind = crate::canonization::n_canonization_ind(N, &mut table, &mut best, &seq);
                let c2 = f.flip($s);
                let c1 = !c2;
                let mut b = f;
                let mut i = 0usize;
                if c1 < b {
                    b = c1;
                    i = 1;
                }
                if c2 < b {
                    b = c2;
                    i = 2;
                }
                assert!(eqb(&table, c2.blocks()));
                assert!(eqb(&best, b.blocks()));
                assert!(ind == i);
                let mask = crate::canonization::n_canonization_res(N, &seq, ind);
                assert!(mask < (1u32 << (N + 1)));
                let x = y ^ ((mask as usize) & ((1usize << N) - 1));
                assert!(bit(&best, y) == (bit(&t0, x) ^ ((mask >> N) & 1 == 1)));
                kani::cover!(ind == 2, "N: the uncomplemented candidate improves");
                kani::cover!(ind == 0, "N: no candidate improves");
            }
            kani::cover!(true, "reached");
        }
    };
}

/// L1 walk lemma, N: arbitrary flip sequence of length <= 2, both output polarities after every flip.
macro_rules! k04_walk_n {
    ($name:ident, $n:literal, $t:literal, $maxlen:literal, $u:literal) => {
        #[kani::proof]
        #[kani::unwind($u)]
        pub fn $name() {
            const N: usize = $n;
            const T: usize = $t;
            type L = crate::StaticLut<N, T>;
            let t0 = any_blocks::<T>(N);
            let seq: [u8; 2] = kani::any();
            kani::assume((seq[0] as usize) < N && (seq[1] as usize) < N);
            let len: usize = kani::any();
            kani::assume(len <= $maxlen);
            let mut table = t0;
            let mut best = [0u64; T];
            let ind = crate::canonization::n_canonization_ind(N, &mut table, &mut best, &seq[..len]);
            let f = L::from_blocks(&t0);
            let mut cur = f;
            let mut b = f;
            let mut i = 0usize;
            let mut idx = 0usize;
            let mut k = 0;
            while k < len {
                cur = cur.flip(seq[k] as usize);
                let mut r = 0;
                while r < 2 {
                    cur = !cur;
                    idx += 1;
                    if cur < b {
                        b = cur;
                        i = idx;
                    }
                    r += 1;
                }
                k += 1;
            }
            assert!(eqb(&table, cur.blocks()));
            assert!(eqb(&best, b.blocks()));
            assert!(ind == i);
            let mask = crate::canonization::n_canonization_res(N, &seq[..len], ind);
            assert!(mask < (1u32 << (N + 1)));
            let y = any_m(N);
            let x = y ^ ((mask as usize) & ((1usize << N) - 1));
            assert!(bit(&best, y) == (bit(&t0, x) ^ ((mask >> N) & 1 == 1)));
            kani::cover!(ind == 0 && len == $maxlen, "no candidate improves");
            kani::cover!(ind == 2 * $maxlen - 1, "complemented candidate after the last flip is the best");
            kani::cover!(true, "reached");
        }
    };
}

/// L1 walk lemma, NPN.  Shapes: (<= 1 swap) x (<= 2 arbitrary flips), and ($closed) 2 swaps x the closed flip
/// cycle [v, v] -- the decoder accumulates input flips across swaps, which is only meaningful when every
/// inner flip cycle returns to the start, as the real (rolled-back Gray) sequences do (lemma L2 "closed").
macro_rules! k04_walk_npn {
    ($name:ident, $n:literal, $t:literal, $slen:literal, $flen:literal, $closed:literal, $u:literal) => {
        #[kani::proof]
        #[kani::unwind($u)]
        pub fn $name() {
            const N: usize = $n;
            const T: usize = $t;
            type L = crate::StaticLut<N, T>;
            let t0 = any_blocks::<T>(N);
            let sw: [u8; 2] = kani::any();
            let fl: [u8; 2] = kani::any();
            kani::assume((sw[0] as usize) < N - 1 && (sw[1] as usize) < N - 1);
            kani::assume((fl[0] as usize) < N && (fl[1] as usize) < N);
            // concrete shape (symbolic trip counts in the triple loop nest were measured to time out even at n = 2)
            let slen: usize = $slen;
            let flen: usize = $flen;
            if $closed {
                kani::assume(fl[0] == fl[1]);
            }
            let mut table = t0;
            let mut best = [0u64; T];
            let ind = crate::canonization::npn_canonization_ind(N, &mut table, &mut best, &sw[..slen], &fl[..flen]);
            let f = L::from_blocks(&t0);
            let mut cur = f;
            let mut b = f;
            let mut i = 0usize;
            let mut idx = 0usize;
            let mut a = 0;
            while a < slen {
                cur = cur.swap(sw[a] as usize, sw[a] as usize + 1);
                let mut k = 0;
                while k < flen {
                    cur = cur.flip(fl[k] as usize);
                    let mut r = 0;
                    while r < 2 {
                        cur = !cur;
                        idx += 1;
                        if cur < b {
                            b = cur;
                            i = idx;
                        }
                        r += 1;
                    }
                    k += 1;
                }
                a += 1;
            }
            assert!(eqb(&table, cur.blocks()));
            assert!(eqb(&best, b.blocks()));
            assert!(ind == i);
            let mut perm = [0u8; N];
            let mask = crate::canonization::npn_canonization_res(N, &mut perm, &sw[..slen], &fl[..flen], ind);
            assert!(is_perm(&perm, N));
            assert!(mask < (1u32 << (N + 1)));
            let y = any_m(N);
            let mut x = 0usize;
            let mut k = 0;
            while k < N {
                x |= (((y >> k) & 1) ^ ((mask as usize >> k) & 1)) << (perm[k] as usize);
                k += 1;
            }
            assert!(bit(&best, y) == (bit(&t0, x) ^ ((mask >> N) & 1 == 1)));
            kani::cover!(ind == 0 && idx >= 2, "no candidate improves");
            kani::cover!(ind >= 3, "a late candidate is the best");
            kani::cover!(true, "reached");
        }
    };
}

// ---------------------------------------------------------------------------------------------
// L0 dispatch lemma: the public entry points hand the walk (`*_ind`) and the decoder (`*_res`) the SAME
// sequences, and those sequences are closed, in range and visit every group element -- checked on what
// the dispatcher really passes (recording stubs replace `*_ind` / `*_res`; everything here is concrete
// except the table, which the dispatch does not look at).  For swap sequences of n >= 7 (5040 / 40320
// entries) the recorded sequence is compared with `generate_swaps(n, true)`, whose coverage is lemma L2.
// ---------------------------------------------------------------------------------------------

pub const REC_CAP: usize = 40400;
pub static mut REC_SW: [u8; REC_CAP] = [0; REC_CAP];
pub static mut REC_SW_LEN: usize = 0;
pub static mut REC_FL: [u8; 300] = [0; 300];
pub static mut REC_FL_LEN: usize = 0;
pub static mut REC_IND_CALLS: usize = 0;
pub static mut REC_RES_CALLS: usize = 0;
pub static mut REC_RES_SAME: bool = false;

unsafe fn rec_store_sw(s: &[u8]) {
    REC_SW_LEN = s.len();
    let mut i = 0;
    while i < s.len() {
        REC_SW[i] = s[i];
        i += 1;
    }
}

unsafe fn rec_store_fl(s: &[u8]) {
    REC_FL_LEN = s.len();
    let mut i = 0;
    while i < s.len() {
        REC_FL[i] = s[i];
        i += 1;
    }
}

unsafe fn rec_same_sw(s: &[u8]) -> bool {
    if s.len() != REC_SW_LEN {
        return false;
    }
    let mut i = 0;
    while i < s.len() {
        if REC_SW[i] != s[i] {
            return false;
        }
        i += 1;
    }
    true
}

unsafe fn rec_same_fl(s: &[u8]) -> bool {
    if s.len() != REC_FL_LEN {
        return false;
    }
    let mut i = 0;
    while i < s.len() {
        if REC_FL[i] != s[i] {
            return false;
        }
        i += 1;
    }
    true
}

pub fn rec_p_ind(_n: usize, table: &mut [u64], best: &mut [u64], all_swaps: &[u8]) -> usize {
    best.clone_from_slice(table);
    unsafe {
        rec_store_sw(all_swaps);
        REC_IND_CALLS += 1;
    }
    0
}

pub fn rec_p_res(_n: usize, res_perm: &mut [u8], all_swaps: &[u8], _best_ind: usize) {
    let mut i = 0;
    while i < res_perm.len() {
        res_perm[i] = i as u8;
        i += 1;
    }
    unsafe {
        REC_RES_SAME = rec_same_sw(all_swaps);
        REC_RES_CALLS += 1;
    }
}

pub fn rec_n_ind(_n: usize, table: &mut [u64], best: &mut [u64], all_flips: &[u8]) -> usize {
    best.clone_from_slice(table);
    unsafe {
        rec_store_fl(all_flips);
        REC_IND_CALLS += 1;
    }
    0
}

pub fn rec_n_res(_n: usize, all_flips: &[u8], _best_ind: usize) -> u32 {
    unsafe {
        REC_RES_SAME = rec_same_fl(all_flips);
        REC_RES_CALLS += 1;
    }
    0
}

pub fn rec_npn_ind(_n: usize, table: &mut [u64], best: &mut [u64], all_swaps: &[u8], all_flips: &[u8]) -> usize {
    best.clone_from_slice(table);
    unsafe {
        rec_store_sw(all_swaps);
        rec_store_fl(all_flips);
        REC_IND_CALLS += 1;
    }
    0
}

pub fn rec_npn_res(_n: usize, res_perm: &mut [u8], all_swaps: &[u8], all_flips: &[u8], _best_ind: usize) -> u32 {
    let mut i = 0;
    while i < res_perm.len() {
        res_perm[i] = i as u8;
        i += 1;
    }
    unsafe {
        REC_RES_SAME = rec_same_sw(all_swaps) && rec_same_fl(all_flips);
        REC_RES_CALLS += 1;
    }
    0
}

/// The recorded flip sequence is in range, closed, and its prefix products 1..L hit every polarity of n inputs.
pub fn check_flips(n: usize) -> bool {
    let len = unsafe { REC_FL_LEN };
    if len != (1usize << n) {
        return false;
    }
    let mut seen = [false; 256];
    let mut cur = 0usize;
    let mut k = 0;
    while k < len {
        let f = unsafe { REC_FL[k] } as usize;
        if f >= n {
            return false;
        }
        cur ^= 1 << f;
        seen[cur] = true;
        k += 1;
    }
    if cur != 0 {
        return false;
    }
    let mut x = 0;
    while x < (1usize << n) {
        if !seen[x] {
            return false;
        }
        x += 1;
    }
    true
}

/// The recorded swap sequence (n <= 6) is in range, closed, and its prefix products 0..L hit every permutation.
pub fn check_swaps_small(n: usize) -> bool {
    let len = unsafe { REC_SW_LEN };
    let mut fact = [1usize; 8];
    let mut i = 1;
    while i < 8 {
        fact[i] = fact[i - 1] * i;
        i += 1;
    }
    if len != fact[n] {
        return false;
    }
    let mut seen = [false; 720];
    let mut p = [0u8, 1, 2, 3, 4, 5];
    seen[0] = true;
    let mut k = 0;
    while k < len {
        let s = unsafe { REC_SW[k] } as usize;
        if s + 1 >= n {
            return false;
        }
        p.swap(s, s + 1);
        // Lehmer rank of p[0..n]
        let mut rank = 0usize;
        let mut a = 0;
        while a < n {
            let mut c = 0;
            let mut b = a + 1;
            while b < n {
                if p[b] < p[a] {
                    c += 1;
                }
                b += 1;
            }
            rank += c * fact[n - 1 - a];
            a += 1;
        }
        seen[rank] = true;
        k += 1;
    }
    let mut a = 0;
    while a < n {
        if p[a] as usize != a {
            return false;
        }
        a += 1;
    }
    let mut r = 0;
    while r < fact[n] {
        if !seen[r] {
            return false;
        }
        r += 1;
    }
    true
}

/// The recorded swap sequence (n >= 7) is exactly generate_swaps(n, true) (whose coverage is lemma L2).
pub fn check_swaps_generated(n: usize) -> bool {
    let g = crate::canonization::generate_swaps(n, true);
    let r = unsafe { rec_same_sw(&g) };
    std::mem::forget(g);
    r
}

macro_rules! k04_dispatch {
    ($name:ident, $fam:ident, $grp:literal, $u:literal) => {
        #[kani::proof]
        #[kani::unwind($u)]
        #[kani::stub(crate::canonization::p_canonization_ind, crate::verif_k04::rec_p_ind)]
        #[kani::stub(crate::canonization::p_canonization_res, crate::verif_k04::rec_p_res)]
        #[kani::stub(crate::canonization::n_canonization_ind, crate::verif_k04::rec_n_ind)]
        #[kani::stub(crate::canonization::n_canonization_res, crate::verif_k04::rec_n_res)]
        #[kani::stub(crate::canonization::npn_canonization_ind, crate::verif_k04::rec_npn_ind)]
        #[kani::stub(crate::canonization::npn_canonization_res, crate::verif_k04::rec_npn_res)]
        pub fn $name() {
            use crate::verif_common::$fam as F;
            let f = F::zero();
            if $grp == 0 {
                let r = f.p_canonization();
                std::mem::forget(r);
            } else if $grp == 1 {
                let r = f.n_canonization();
                std::mem::forget(r);
            } else {
                let r = f.npn_canonization();
                std::mem::forget(r);
            }
            unsafe {
                assert!(REC_IND_CALLS == 1 && REC_RES_CALLS == 1);
                assert!(REC_RES_SAME);
            }
            if $grp != 1 {
                if F::N <= 6 {
                    assert!(check_swaps_small(F::N));
                } else {
                    assert!(check_swaps_generated(F::N));
                }
            }
            if $grp != 0 {
                assert!(check_flips(F::N));
            }
            kani::cover!(true, "reached");
            std::mem::forget(f);
        }
    };
}

// ---- instantiations (generated by /verif/lib/registry.py) ----
