// C01 -- logical operators are exact pointwise Boolean operations (public API only).
use crate::verif_common::*;

pub fn eq_blocks(a: &[u64], b: &[u64]) -> bool {
    if a.len() != b.len() {
        return false;
    }
    let mut i = 0;
    while i < a.len() {
        if a[i] != b[i] {
            return false;
        }
        i += 1;
    }
    true
}

/// `value` / `get_bit` read the bit that `from_blocks` stored; size queries.
macro_rules! c01_anchor {
    ($name:ident, $fam:ident, $u:literal) => {
        #[kani::proof]
        #[kani::unwind($u)]
        pub fn $name() {
            use crate::verif_common::$fam as F;
            let b = any_blocks::<{ F::T }>(F::N);
            let a = F::mk(&b);
            let m = any_m(F::N);
            assert!(a.value(m) == bit(&b, m));
            assert!(a.get_bit(m) == bit(&b, m));
            assert!(eq_blocks(a.blocks(), &b));
            assert!(a.num_vars() == F::N);
            assert!(a.num_bits() == 1usize << F::N);
            assert!(a.num_blocks() == F::T);
            assert!(F::T == tsize(F::N));
            kani::cover!(bit(&b, m), "bit set");
            kani::cover!(!bit(&b, m), "bit clear");
            kani::cover!(true, "reached");
        }
    };
}

macro_rules! c01_check_result {
    ($r:expr, $exp:expr, $m:expr, $n:expr, $first:expr) => {
        assert!(wf($n, $r.blocks()));
        assert!(bit($r.blocks(), $m) == $exp);
        assert!($r.value($m) == $exp);
        assert!(eq_blocks($r.blocks(), $first.blocks()));
    };
}

macro_rules! c01_not {
    ($name:ident, $fam:ident, $u:literal) => {
        #[kani::proof]
        #[kani::unwind($u)]
        pub fn $name() {
            use crate::verif_common::$fam as F;
            let ba = any_blocks::<{ F::T }>(F::N);
            let a = F::mk(&ba);
            let m = any_m(F::N);
            let exp = !bit(&ba, m);
            let r1 = a.not();
            c01_check_result!(r1, exp, m, F::N, r1);
            let mut r2 = a.clone();
            r2.not_inplace();
            c01_check_result!(r2, exp, m, F::N, r1);
            let r3 = !a.clone();
            c01_check_result!(r3, exp, m, F::N, r1);
            let r4 = !&a;
            c01_check_result!(r4, exp, m, F::N, r1);
            // borrowed operand unchanged
            assert!(eq_blocks(a.blocks(), &ba));
            // involution
            let r5 = !&r4;
            assert!(eq_blocks(r5.blocks(), &ba));
            kani::cover!(exp, "result bit set");
            kani::cover!(!exp, "result bit clear");
            kani::cover!(true, "reached");
        }
    };
}

macro_rules! c01_bin {
    ($name:ident, $fam:ident, $u:literal, $named:ident, $inplace:ident, $op:tt, $opa:tt, $bop:tt) => {
        #[kani::proof]
        #[kani::unwind($u)]
        pub fn $name() {
            use crate::verif_common::$fam as F;
            let ba = any_blocks::<{ F::T }>(F::N);
            let bb = any_blocks::<{ F::T }>(F::N);
            let a = F::mk(&ba);
            let b = F::mk(&bb);
            let m = any_m(F::N);
            let exp: bool = bit(&ba, m) $bop bit(&bb, m);
            let r1 = a.$named(&b);
            c01_check_result!(r1, exp, m, F::N, r1);
            let mut r2 = a.clone();
            r2.$inplace(&b);
            c01_check_result!(r2, exp, m, F::N, r1);
            let r3 = a.clone() $op b.clone();
            c01_check_result!(r3, exp, m, F::N, r1);
            let r4 = a.clone() $op &b;
            c01_check_result!(r4, exp, m, F::N, r1);
            let r5 = &a $op b.clone();
            c01_check_result!(r5, exp, m, F::N, r1);
            let r6 = &a $op &b;
            c01_check_result!(r6, exp, m, F::N, r1);
            let mut r7 = a.clone();
            r7 $opa b.clone();
            c01_check_result!(r7, exp, m, F::N, r1);
            let mut r8 = a.clone();
            r8 $opa &b;
            c01_check_result!(r8, exp, m, F::N, r1);
            // borrowed operands unchanged
            assert!(eq_blocks(a.blocks(), &ba));
            assert!(eq_blocks(b.blocks(), &bb));
            kani::cover!(exp, "result bit set");
            kani::cover!(!exp, "result bit clear");
            kani::cover!(true, "reached");
        }
    };
}

/// Aliased operands: the same object on both sides of a binary operator (x & x = x, x | x = x, x ^ x = 0),
/// every form that can take the same object twice.
macro_rules! c01_alias {
    ($name:ident, $fam:ident, $u:literal) => {
        #[kani::proof]
        #[kani::unwind($u)]
        pub fn $name() {
            use crate::verif_common::$fam as F;
            let ba = any_blocks::<{ F::T }>(F::N);
            let a = F::mk(&ba);
            let m = any_m(F::N);
            let av = bit(&ba, m);
            let r = a.and(&a);
            assert!(wf(F::N, r.blocks()) && bit(r.blocks(), m) == av);
            let r = a.or(&a);
            assert!(wf(F::N, r.blocks()) && bit(r.blocks(), m) == av);
            let r = a.xor(&a);
            assert!(wf(F::N, r.blocks()) && !bit(r.blocks(), m));
            let r = &a & &a;
            assert!(bit(r.blocks(), m) == av);
            let r = &a | &a;
            assert!(bit(r.blocks(), m) == av);
            let r = &a ^ &a;
            assert!(!bit(r.blocks(), m) && r.value(m) == false);
            let r = a.clone() ^ &a;
            assert!(!bit(r.blocks(), m));
            let r = &a ^ a.clone();
            assert!(!bit(r.blocks(), m));
            let mut h = a.clone();
            h ^= &a;
            assert!(!bit(h.blocks(), m));
            let mut h = a.clone();
            h &= &a;
            assert!(bit(h.blocks(), m) == av);
            let mut h = a.clone();
            h.xor_inplace(&a);
            assert!(!bit(h.blocks(), m));
            assert!(eq_blocks(a.blocks(), &ba));
            kani::cover!(av, "bit set");
            kani::cover!(true, "reached");
        }
    };
}

macro_rules! c01_and {
    ($name:ident, $fam:ident, $u:literal) => {
        c01_bin!($name, $fam, $u, and, and_inplace, &, &=, &);
    };
}
macro_rules! c01_or {
    ($name:ident, $fam:ident, $u:literal) => {
        c01_bin!($name, $fam, $u, or, or_inplace, |, |=, |);
    };
}
macro_rules! c01_xor {
    ($name:ident, $fam:ident, $u:literal) => {
        c01_bin!($name, $fam, $u, xor, xor_inplace, ^, ^=, ^);
    };
}

// ---- instantiations (generated by /verif/lib/registry.py) ----
