// C13 -- Ecube (XOR term) and Soes (OR of XOR terms) semantics.  Public API only.
use crate::sop::{Ecube, Soes};
use crate::verif_common::*;
use crate::Lut;

fn parity32(x: u32) -> bool {
    let mut p = false;
    let mut i = 0;
    while i < 32 {
        if (x >> i) & 1 == 1 {
            p = !p;
        }
        i += 1;
    }
    p
}

/// An arbitrary exclusive cube over all 32 variables, built through the public API only.
fn mk_ecube(v: u32, x: bool) -> Ecube {
    let mut e = if x { Ecube::one() } else { Ecube::zero() };
    let mut i = 0;
    while i < 32 {
        if (v >> i) & 1 == 1 {
            e = e ^ Ecube::nth_var(i);
        }
        i += 1;
    }
    e
}

#[kani::proof]
#[kani::unwind(34)]
pub fn c13_ecube_value_ops() {
    let (v1, v2): (u32, u32) = (kani::any(), kani::any());
    let (x1, x2): (bool, bool) = (kani::any(), kani::any());
    let m: u32 = kani::any();
    let a = mk_ecube(v1, x1);
    let b = mk_ecube(v2, x2);
    let av = parity32(v1 & m) ^ x1;
    let bv = parity32(v2 & m) ^ x2;
    assert!(a.value(m as usize) == av);
    assert!(b.value(m as usize) == bv);
    // xor, four reference forms
    let c1 = a ^ b;
    let c2 = &a ^ b;
    let c3 = &a ^ &b;
    let c4 = a ^ &b;
    assert!(c1 == c2 && c2 == c3 && c3 == c4);
    assert!(c1.value(m as usize) == (av ^ bv));
    assert!(c1 == mk_ecube(v1 ^ v2, x1 ^ x2));
    // complement, two forms
    let n1 = !a;
    let n2 = !&a;
    assert!(n1 == n2);
    assert!(n1.value(m as usize) == !av);
    assert!(!n1 == a);
    // constants and counts
    assert!(a.is_zero() == (v1 == 0 && !x1));
    assert!(a.is_one() == (v1 == 0 && x1));
    assert!(a.num_lits() == v1.count_ones() as usize);
    assert!(a.num_gates() == if v1.count_ones() == 0 { 0 } else { v1.count_ones() as usize - 1 });
    kani::cover!(av && !bv, "values differ");
    kani::cover!(v1 == !0u32, "all 32 variables");
    kani::cover!(true, "reached");
}

/// Equality is semantic equality (Skolem witness: 0 if the constants differ, else a single differing variable).
#[kani::proof]
#[kani::unwind(34)]
pub fn c13_ecube_eq_semantic() {
    let (v1, v2): (u32, u32) = (kani::any(), kani::any());
    let (x1, x2): (bool, bool) = (kani::any(), kani::any());
    let m: u32 = kani::any();
    let a = mk_ecube(v1, x1);
    let b = mk_ecube(v2, x2);
    if a == b {
        assert!(a.value(m as usize) == b.value(m as usize));
        assert!(v1 == v2 && x1 == x2);
    } else {
        let w: usize = if x1 != x2 { 0 } else { 1usize << (v1 ^ v2).trailing_zeros() };
        assert!(a.value(w) != b.value(w));
    }
    kani::cover!(a == b, "equal");
    kani::cover!(a != b && x1 == x2, "differ by a variable");
    kani::cover!(true, "reached");
}

#[kani::proof]
#[kani::unwind(34)]
pub fn c13_ecube_constructors() {
    let m: u32 = kani::any();
    let i: usize = kani::any();
    kani::assume(i < 32);
    assert!(Ecube::nth_var(i).value(m as usize) == ((m >> i) & 1 == 1));
    assert!(Ecube::nth_var_inv(i).value(m as usize) == ((m >> i) & 1 == 0));
    assert!(Ecube::one().value(m as usize));
    assert!(!Ecube::zero().value(m as usize));
    assert!(Ecube::nth_var_inv(i) == !Ecube::nth_var(i));
    let v: [usize; 3] = kani::any();
    kani::assume(v[0] < 32 && v[1] < 32 && v[2] < 32);
    let l: usize = kani::any();
    kani::assume(l <= 3);
    let x: bool = kani::any();
    let mut mask = 0u32;
    let mut k = 0;
    while k < l {
        mask |= 1 << v[k];
        k += 1;
    }
    let e = Ecube::from_vars(&v[..l], x);
    assert!(e == mk_ecube(mask, x));
    assert!(e.value(m as usize) == (parity32(mask & m) ^ x));
    kani::cover!(l == 3 && v[0] == v[1], "repeated variable in from_vars");
    kani::cover!(true, "reached");
}

/// Loop-free construction of a term over variables < 6 (the enumeration harness needs a small unwind bound).
fn mk_ecube_small(v: u32, x: bool) -> Ecube {
    let mut e = if x { Ecube::one() } else { Ecube::zero() };
    if v & 1 != 0 {
        e = e ^ Ecube::nth_var(0);
    }
    if v & 2 != 0 {
        e = e ^ Ecube::nth_var(1);
    }
    if v & 4 != 0 {
        e = e ^ Ecube::nth_var(2);
    }
    if v & 8 != 0 {
        e = e ^ Ecube::nth_var(3);
    }
    if v & 16 != 0 {
        e = e ^ Ecube::nth_var(4);
    }
    if v & 32 != 0 {
        e = e ^ Ecube::nth_var(5);
    }
    e
}

/// Ecube::all(n): each of the 2^(n+1) terms over variables < n exactly once.
macro_rules! c13_ecube_all {
    ($name:ident, $n:literal, $u:literal) => {
        #[kani::proof]
        #[kani::unwind($u)]
        pub fn $name() {
            const N: usize = $n;
            let v: u32 = kani::any();
            kani::assume(v < 64);
            let x: bool = kani::any();
            let c = mk_ecube_small(v, x);
            let mut count = 0usize;
            let mut total = 0usize;
            for e in Ecube::all(N) {
                if e == c {
                    count += 1;
                }
                total += 1;
            }
            assert!(total == 1usize << (N + 1));
            let expected = if (v as u64) < (1u64 << N) { 1 } else { 0 };
            assert!(count == expected);
            kani::cover!(expected == 1, "term inside the enumeration");
            kani::cover!(expected == 0, "term outside the enumeration");
            kani::cover!(true, "reached");
        }
    };
}

/// A literal operand of an n-variable Soes.  The KIND is concrete per harness (0: zero, 1: one, 2: x_i,
/// 3: !x_i) so that every Vec has a concrete length and no pointer is chosen symbolically (a symbolic
/// choice between differently allocated Soes values makes CBMC case-split every later access:
/// measured >20 min instead of 10 s); the variable index i is symbolic.
fn lit(n: usize, kind: u8, m: u32) -> (Soes, bool) {
    if kind == 0 {
        return (Soes::zero(n), false);
    }
    if kind == 1 {
        return (Soes::one(n), true);
    }
    if kind == 4 {
        // a one-term Soes whose term is the constant-zero exclusive cube (only from_cubes can build it;
        // the mask is concrete, so from_cubes' scan of the variables is cheap)
        return (Soes::from_cubes(n, vec![Ecube::zero()]), false);
    }
    if kind == 5 {
        return (Soes::from_cubes(n, vec![Ecube::one(), Ecube::zero()]), true);
    }
    let i: usize = kani::any();
    kani::assume(i < n);
    if kind == 2 {
        (Soes::nth_var(n, i), (m >> i) & 1 == 1)
    } else {
        (Soes::nth_var_inv(n, i), (m >> i) & 1 == 0)
    }
}

/// Soes built from constructors and `|`: value is the OR of the terms, `|` (4 forms) denotes OR,
/// conversion to Lut tabulates the same function, is_zero / is_one only for the respective constants.
macro_rules! c13_soes {
    ($name:ident, $n:literal, $k0:literal, $k1:literal, $k2:literal, $k3:literal, $u:literal) => {
        #[kani::proof]
        #[kani::unwind($u)]
        pub fn $name() {
            const N: usize = $n;
            let m = any_m(N);
            let mm = m as u32;
            let (p0, e0) = lit(N, $k0, mm);
            let (p1, e1) = lit(N, $k1, mm);
            let (p2, e2) = lit(N, $k2, mm);
            let (p3, e3) = lit(N, $k3, mm);
            assert!(p0.value(m) == e0 && p1.value(m) == e1 && p2.value(m) == e2 && p3.value(m) == e3);
            assert!(p0.is_zero() == ($k0 == 0) && p1.is_zero() == ($k1 == 0));
            let exp = e0 || e1 || e2 || e3;
            // the four reference forms of |
            let ab = &p0 | &p1;
            let ab2 = p0.clone() | p1.clone();
            let ab3 = &p0 | p1.clone();
            let ab4 = p0.clone() | &p1;
            assert!(ab == ab2 && ab == ab3 && ab == ab4);
            assert!(ab.value(m) == (e0 || e1));
            let cd = &p2 | &p3;
            let s = &ab | &cd;
            assert!(s.num_vars() == N);
            assert!(s.value(m) == exp);
            assert!(s.num_cubes() == ab.num_cubes() + cd.num_cubes());
            // tabulation
            let l = Lut::from(&s);
            assert!(l.num_vars() == N);
            assert!(wf(N, l.blocks()));
            assert!(l.value(m) == exp);
            // is_zero / is_one never hold for a non-constant or opposite-constant function
            if s.is_zero() {
                assert!(!exp);
            }
            if s.is_one() {
                assert!(exp);
            }
            kani::cover!(exp, "evaluates to true");
            kani::cover!(!exp, "evaluates to false");
            kani::cover!(true, "reached");
        }
    };
}

/// One general symbolic term through from_cubes (thorough tier; from_cubes scans a symbolic mask).
macro_rules! c13_soes_general {
    ($name:ident, $n:literal, $u:literal) => {
        #[kani::proof]
        #[kani::unwind($u)]
        pub fn $name() {
            const N: usize = $n;
            let m = any_m(N);
            let v: u32 = kani::any();
            kani::assume((v as u64) < (1u64 << N));
            let x: bool = kani::any();
            let e = mk_ecube(v, x);
            let s = Soes::from_cubes(N, vec![e]);
            let tv = parity32(v & (m as u32)) ^ x;
            assert!(s.value(m) == tv);
            let l = Lut::from(&s);
            assert!(wf(N, l.blocks()));
            assert!(l.value(m) == tv);
            if s.is_one() {
                assert!(tv);
            }
            assert!(!s.is_zero());
            kani::cover!(v.count_ones() >= 2, "multi-variable term");
            kani::cover!(true, "reached");
        }
    };
}

// ---- instantiations (generated by /verif/lib/registry.py) ----
