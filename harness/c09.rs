// C09 -- text forms: parsing accepts exactly well-formed input; printing is fixed-width MSB-first.
// Public API only.  The input string is W fully symbolic bytes.
use crate::verif_common::*;

fn hexval(c: u8) -> Option<(u64, bool)> {
    // (value, is_lower_case_or_digit)
    if c >= b'0' && c <= b'9' {
        Some(((c - b'0') as u64, true))
    } else if c >= b'a' && c <= b'f' {
        Some(((c - b'a') as u64 + 10, true))
    } else if c >= b'A' && c <= b'F' {
        Some(((c - b'A') as u64 + 10, false))
    } else {
        None
    }
}

fn hexchar(d: u64) -> u8 {
    if d < 10 {
        b'0' + d as u8
    } else {
        b'a' + (d as u8 - 10)
    }
}

/// Exactly-W-byte ASCII strings: Ok iff lower-case hex and in range; the table is the denoted one.
macro_rules! c09_parse {
    ($name:ident, $fam:ident, $w:literal, $u:literal) => {
        #[kani::proof]
        #[kani::unwind($u)]
        pub fn $name() {
            use crate::verif_common::$fam as F;
            const W: usize = $w;
            // digits per 64-bit word
            const PER: usize = W / F::T;
            let bytes: [u8; W] = kani::any();
            let mut k = 0;
            while k < W {
                kani::assume(bytes[k] < 0x80);
                k += 1;
            }
            let s = unsafe { std::str::from_utf8_unchecked(&bytes) };
            let r = F::from_hex_string(s);
            // oracle
            let mut all_lower = true;
            let mut all_hex = true;
            let mut val = [0u64; F::T];
            let mut k = 0;
            while k < W {
                match hexval(bytes[k]) {
                    None => {
                        all_hex = false;
                    }
                    Some((d, lower)) => {
                        if !lower {
                            all_lower = false;
                        }
                        let word = F::T - 1 - k / PER;
                        val[word] = (val[word] << 4) | d;
                    }
                }
                k += 1;
            }
            let fits = F::N >= 6 || (val[0] & !low_mask(F::N)) == 0;
            match &r {
                Ok(l) => {
                    // never a malformed table, and only for hex strings that fit
                    assert!(wf(F::N, l.blocks()));
                    assert!(all_hex && fits);
                    let mut i = 0;
                    while i < F::T {
                        assert!(l.blocks()[i] == val[i]);
                        i += 1;
                    }
                }
                Err(_) => {
                    // lower-case in-range hex strings must be accepted
                    assert!(!(all_hex && all_lower && fits));
                }
            }
            kani::cover!(r.is_ok(), "accepted");
            kani::cover!(r.is_err() && all_hex && all_lower, "rejected: digit too large");
            kani::cover!(r.is_err() && !all_hex, "rejected: non-hex character");
            kani::cover!(bytes[0] == b'+', "leading plus");
            kani::cover!(true, "reached");
        }
    };
}

/// Wrong lengths (0..=W+2 except W), arbitrary ASCII content: Err, no panic.
macro_rules! c09_wrong_len {
    ($name:ident, $fam:ident, $w:literal, $u:literal) => {
        #[kani::proof]
        #[kani::unwind($u)]
        pub fn $name() {
            use crate::verif_common::$fam as F;
            const W: usize = $w;
            let bytes: [u8; W + 2] = kani::any();
            let mut k = 0;
            while k < W + 2 {
                kani::assume(bytes[k] < 0x80);
                k += 1;
            }
            let len: usize = kani::any();
            kani::assume(len <= W + 2 && len != W);
            let s = unsafe { std::str::from_utf8_unchecked(&bytes[..len]) };
            let r = F::from_hex_string(s);
            assert!(r.is_err());
            kani::cover!(len == 0, "empty string");
            kani::cover!(len == W + 1, "one too long");
            kani::cover!(true, "reached");
        }
    };
}

/// Non-ASCII text of the right byte length: a 2-byte UTF-8 character at a symbolic position (including
/// straddling a 16-digit chunk boundary for multi-word tables), the rest symbolic ASCII: Err, no panic.
macro_rules! c09_non_ascii {
    ($name:ident, $fam:ident, $w:literal, $u:literal) => {
        #[kani::proof]
        #[kani::unwind($u)]
        pub fn $name() {
            use crate::verif_common::$fam as F;
            const W: usize = $w;
            let mut bytes: [u8; W] = kani::any();
            let pos: usize = kani::any();
            kani::assume(pos < W - 1);
            let mut k = 0;
            while k < W {
                if k == pos {
                    kani::assume(bytes[k] >= 0xC2 && bytes[k] <= 0xDF);
                } else if k == pos + 1 {
                    kani::assume(bytes[k] >= 0x80 && bytes[k] <= 0xBF);
                } else {
                    kani::assume(bytes[k] < 0x80);
                }
                k += 1;
            }
            let s = unsafe { std::str::from_utf8_unchecked(&bytes) };
            let r = F::from_hex_string(s);
            assert!(r.is_err());
            kani::cover!(W >= 32 && pos == 15, "character straddles the chunk boundary");
            kani::cover!(true, "reached");
        }
    };
}

/// to_hex_string: exact length, every digit (symbolic position) is the MSB-first nibble; parse(print(f)) == f.
macro_rules! c09_print_hex {
    ($name:ident, $fam:ident, $w:literal, $u:literal) => {
        #[kani::proof]
        #[kani::unwind($u)]
        pub fn $name() {
            use crate::verif_common::$fam as F;
            const W: usize = $w;
            let b = any_blocks::<{ F::T }>(F::N);
            let f = F::mk(&b);
            let s = f.to_hex_string();
            assert!(s.len() == W);
            let p: usize = kani::any();
            kani::assume(p < W);
            let nib = W - 1 - p;
            let d = (b[nib / 16] >> (4 * (nib % 16))) & 0xf;
            assert!(s.as_bytes()[p] == hexchar(d));
            kani::cover!(d >= 10, "letter digit");
            kani::cover!(true, "reached");
        }
    };
}

macro_rules! c09_roundtrip {
    ($name:ident, $fam:ident, $w:literal, $u:literal) => {
        #[kani::proof]
        #[kani::unwind($u)]
        pub fn $name() {
            use crate::verif_common::$fam as F;
            let b = any_blocks::<{ F::T }>(F::N);
            let f = F::mk(&b);
            let s = f.to_hex_string();
            let r = F::from_hex_string(&s);
            assert!(r.is_ok());
            let g = r.unwrap();
            let mut i = 0;
            while i < F::T {
                assert!(g.blocks()[i] == b[i]);
                i += 1;
            }
            kani::cover!(true, "reached");
        }
    };
}

/// to_bin_string: 2^n digits, MSB first.
macro_rules! c09_print_bin {
    ($name:ident, $fam:ident, $w:literal, $u:literal) => {
        #[kani::proof]
        #[kani::unwind($u)]
        pub fn $name() {
            use crate::verif_common::$fam as F;
            const W: usize = $w;
            let b = any_blocks::<{ F::T }>(F::N);
            let f = F::mk(&b);
            let s = f.to_bin_string();
            assert!(s.len() == W);
            let p: usize = kani::any();
            kani::assume(p < W);
            let m = W - 1 - p;
            assert!(s.as_bytes()[p] == if bit(&b, m) { b'1' } else { b'0' });
            kani::cover!(true, "reached");
        }
    };
}

/// Word order of multi-word printing.  Fully symbolic 64-bit words are out of reach for core::fmt under CBMC,
/// so every word is restricted to a small symbolic value (< 16 for hex, < 2 for binary): the rendering is then
/// zero padding plus ONE symbolic digit per word, whose position shows where each word was printed.
macro_rules! c09_print_order {
    ($name:ident, $fam:ident, $hex:literal, $u:literal) => {
        #[kani::proof]
        #[kani::unwind($u)]
        pub fn $name() {
            use crate::verif_common::$fam as F;
            let mut b = [0u64; F::T];
            let mut k = 0;
            while k < F::T {
                let w: u8 = kani::any();
                kani::assume(w < if $hex { 16 } else { 2 });
                b[k] = w as u64;
                k += 1;
            }
            let f = F::mk(&b);
            let per: usize = if $hex { 16 } else { 64 };
            let s = if $hex { f.to_hex_string() } else { f.to_bin_string() };
            assert!(s.len() == per * F::T);
            // the last character of the chunk printed for word k is that word's digit; chunk order is most significant word first
            let mut k = 0;
            while k < F::T {
                let pos = per * (F::T - k) - 1;
                assert!(s.as_bytes()[pos] == hexchar(b[k]));
                k += 1;
            }
            let p: usize = kani::any();
            kani::assume(p < per * F::T && p % per != per - 1);
            assert!(s.as_bytes()[p] == b'0');
            kani::cover!(b[0] != b[F::T - 1], "first and last word differ");
            kani::cover!(true, "reached");
        }
    };
}

// ---- instantiations (generated by /verif/lib/registry.py) ----
