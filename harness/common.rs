// Shared harness vocabulary (DESIGN.md section 3).  Compiled inside the mirror crate as
// `crate::verif_common`, only under cfg(kani) (or natively for the replay runner).
#![allow(dead_code, unused_macros, unused_imports)]

/// Number of 64-bit words of an n-variable table.
pub const fn tsize(n: usize) -> usize {
    if n <= 6 {
        1
    } else {
        1 << (n - 6)
    }
}

/// Mask of the meaningful bits of word 0 (all ones for n >= 6).
pub const fn low_mask(n: usize) -> u64 {
    if n >= 6 {
        !0u64
    } else {
        (1u64 << (1usize << n)) - 1
    }
}

/// Bit `m` of a block slice -- the definitional reading of a table.
pub fn bit(b: &[u64], m: usize) -> bool {
    (b[m >> 6] >> (m & 63)) & 1 == 1
}

/// Well-formedness of the exported block view (C02): right length, no bit at a position >= 2^n.
pub fn wf(n: usize, b: &[u64]) -> bool {
    b.len() == tsize(n) && (n >= 6 || b[0] & !low_mask(n) == 0)
}

/// Exchange bits i and j of m.
pub fn swap_bits(m: usize, i: usize, j: usize) -> usize {
    let bi = (m >> i) & 1;
    let bj = (m >> j) & 1;
    (m & !(1 << i) & !(1 << j)) | (bi << j) | (bj << i)
}

/// Population count by definition (loop over the low `n` bits).
pub fn popcount(m: usize, n: usize) -> usize {
    let mut c = 0;
    let mut i = 0;
    while i < n {
        c += (m >> i) & 1;
        i += 1;
    }
    c
}

#[cfg(kani)]
pub fn any_blocks<const T: usize>(n: usize) -> [u64; T] {
    let mut b: [u64; T] = kani::any();
    if n < 6 {
        b[0] &= low_mask(n);
    }
    b
}

/// An arbitrary assignment `< 2^n`.
#[cfg(kani)]
pub fn any_m(n: usize) -> usize {
    let m: usize = kani::any();
    kani::assume(m < (1usize << n));
    m
}

/// An arbitrary variable index `< n` (n >= 1).
#[cfg(kani)]
pub fn any_var(n: usize) -> usize {
    let i: usize = kani::any();
    kani::assume(i < n);
    i
}

// ---------------------------------------------------------------------------------------------
// Families: a module per (type, n) that hides the only syntactic difference between the
// fixed-size and the dynamic type (the extra `num_vars` argument of constructors).
// ---------------------------------------------------------------------------------------------

macro_rules! fam_static {
    ($fam:ident, $alias:ident, $N:expr, $T:expr) => {
        pub mod $fam {
            // the exported alias itself, so that a wrong (N, T) in an alias is seen by every harness
            pub type L = crate::$alias;
            pub const N: usize = $N;
            pub const T: usize = $T;
            pub const DYNAMIC: bool = false;
            pub fn mk(b: &[u64]) -> L {
                L::from_blocks(b)
            }
            #[cfg(kani)]
            pub fn any() -> L {
                mk(&crate::verif_common::any_blocks::<$T>($N))
            }
            pub fn one() -> L {
                L::one()
            }
            pub fn zero() -> L {
                L::zero()
            }
            pub fn default() -> L {
                <L as Default>::default()
            }
            pub fn nth_var(i: usize) -> L {
                L::nth_var(i)
            }
            pub fn parity() -> L {
                L::parity()
            }
            pub fn majority() -> L {
                L::majority()
            }
            pub fn threshold(k: usize) -> L {
                L::threshold(k)
            }
            pub fn equals(k: usize) -> L {
                L::equals(k)
            }
            pub fn symmetric(c: usize) -> L {
                L::symmetric(c)
            }
            pub fn from_hex_string(s: &str) -> Result<L, ()> {
                L::from_hex_string(s)
            }
            pub fn all_functions() -> impl Iterator<Item = L> {
                L::all_functions()
            }
            pub fn bdd_complexity(l: &[L]) -> usize {
                L::bdd_complexity(l)
            }
            #[cfg(feature = "rand")]
            pub fn random() -> L {
                L::random()
            }
            pub fn to_dyn(l: &L) -> crate::Lut {
                crate::Lut::from(*l)
            }
        }
    };
}

macro_rules! fam_dyn {
    ($fam:ident, $N:expr, $T:expr) => {
        pub mod $fam {
            pub type L = crate::Lut;
            pub const N: usize = $N;
            pub const T: usize = $T;
            pub const DYNAMIC: bool = true;
            pub fn mk(b: &[u64]) -> L {
                L::from_blocks($N, b)
            }
            #[cfg(kani)]
            pub fn any() -> L {
                mk(&crate::verif_common::any_blocks::<$T>($N))
            }
            pub fn one() -> L {
                L::one($N)
            }
            pub fn zero() -> L {
                L::zero($N)
            }
            pub fn default() -> L {
                <L as Default>::default()
            }
            pub fn nth_var(i: usize) -> L {
                L::nth_var($N, i)
            }
            pub fn parity() -> L {
                L::parity($N)
            }
            pub fn majority() -> L {
                L::majority($N)
            }
            pub fn threshold(k: usize) -> L {
                L::threshold($N, k)
            }
            pub fn equals(k: usize) -> L {
                L::equals($N, k)
            }
            pub fn symmetric(c: usize) -> L {
                L::symmetric($N, c)
            }
            pub fn from_hex_string(s: &str) -> Result<L, ()> {
                L::from_hex_string($N, s)
            }
            pub fn all_functions() -> impl Iterator<Item = L> {
                L::all_functions($N)
            }
            pub fn bdd_complexity(l: &[L]) -> usize {
                L::bdd_complexity(l)
            }
            #[cfg(feature = "rand")]
            pub fn random() -> L {
                L::random($N)
            }
            pub fn to_dyn(l: &L) -> crate::Lut {
                l.clone()
            }
        }
    };
}

fam_static!(s0, Lut0, 0, 1);
fam_static!(s1, Lut1, 1, 1);
fam_static!(s2, Lut2, 2, 1);
fam_static!(s3, Lut3, 3, 1);
fam_static!(s4, Lut4, 4, 1);
fam_static!(s5, Lut5, 5, 1);
fam_static!(s6, Lut6, 6, 1);
fam_static!(s7, Lut7, 7, 2);
fam_static!(s8, Lut8, 8, 4);
fam_static!(s9, Lut9, 9, 8);
fam_static!(s10, Lut10, 10, 16);
fam_static!(s11, Lut11, 11, 32);
fam_static!(s12, Lut12, 12, 64);

fam_dyn!(d0, 0, 1);
fam_dyn!(d1, 1, 1);
fam_dyn!(d2, 2, 1);
fam_dyn!(d3, 3, 1);
fam_dyn!(d4, 4, 1);
fam_dyn!(d5, 5, 1);
fam_dyn!(d6, 6, 1);
fam_dyn!(d7, 7, 2);
fam_dyn!(d8, 8, 4);
fam_dyn!(d9, 9, 8);
fam_dyn!(d10, 10, 16);
fam_dyn!(d11, 11, 32);
fam_dyn!(d12, 12, 64);
fam_dyn!(d13, 13, 128);
fam_dyn!(d14, 14, 256);
