// C08 -- ordering is the numeric order of the table; all_functions enumerates it (public API only).
use crate::verif_common::*;
use std::cmp::Ordering;

/// Most-significant-word-first comparison, written out.
fn spec_cmp(a: &[u64], b: &[u64]) -> Ordering {
    let mut i = a.len();
    while i > 0 {
        i -= 1;
        if a[i] < b[i] {
            return Ordering::Less;
        }
        if a[i] > b[i] {
            return Ordering::Greater;
        }
    }
    Ordering::Equal
}

/// Highest assignment on which the two tables differ (None if equal).
fn highest_diff(a: &[u64], b: &[u64]) -> Option<usize> {
    let mut i = a.len();
    while i > 0 {
        i -= 1;
        let x = a[i] ^ b[i];
        if x != 0 {
            return Some(i * 64 + (63 - x.leading_zeros() as usize));
        }
    }
    None
}

macro_rules! c08_cmp {
    ($name:ident, $fam:ident, $u:literal) => {
        #[kani::proof]
        #[kani::unwind($u)]
        pub fn $name() {
            use crate::verif_common::$fam as F;
            let ba = any_blocks::<{ F::T }>(F::N);
            let bb = any_blocks::<{ F::T }>(F::N);
            let a = F::mk(&ba);
            let b = F::mk(&bb);
            let c = a.cmp(&b);
            assert!(c == spec_cmp(&ba, &bb));
            assert!(a.partial_cmp(&b) == Some(c));
            assert!(b.cmp(&a) == c.reverse());
            assert!((c == Ordering::Equal) == (a == b));
            assert!((a < b) == (c == Ordering::Less));
            assert!((a > b) == (c == Ordering::Greater));
            assert!((a <= b) == (c != Ordering::Greater));
            assert!((b > a) == (a < b));
            // numeric reading: the highest differing assignment decides, and it carries the larger table's 1
            match highest_diff(&ba, &bb) {
                None => assert!(c == Ordering::Equal),
                Some(w) => {
                    assert!(w < (1usize << F::N));
                    if b.value(w) {
                        assert!(!a.value(w) && c == Ordering::Less);
                    } else {
                        assert!(a.value(w) && c == Ordering::Greater);
                    }
                }
            }
            kani::cover!(c == Ordering::Less, "less");
            kani::cover!(c == Ordering::Equal, "equal");
            kani::cover!(true, "reached");
        }
    };
}

macro_rules! c08_trans {
    ($name:ident, $fam:ident, $u:literal) => {
        #[kani::proof]
        #[kani::unwind($u)]
        pub fn $name() {
            use crate::verif_common::$fam as F;
            let a = F::any();
            let b = F::any();
            let c = F::any();
            if a <= b && b <= c {
                assert!(a <= c);
            }
            if a < b && b <= c {
                assert!(a < c);
            }
            if a <= b && b <= a {
                assert!(a == b);
            }
            kani::cover!(a < b && b < c, "strict chain");
            kani::cover!(true, "reached");
        }
    };
}

/// Dynamic tables of different sizes are ordered by the number of variables first.
macro_rules! c08_diffn {
    ($name:ident, $fa:ident, $fb:ident, $u:literal) => {
        #[kani::proof]
        #[kani::unwind($u)]
        pub fn $name() {
            use crate::verif_common::$fa as FA;
            use crate::verif_common::$fb as FB;
            let a = FA::any();
            let b = FB::any();
            let exp = if FA::N < FB::N { Ordering::Less } else { Ordering::Greater };
            assert!(FA::N != FB::N);
            assert!(a.cmp(&b) == exp);
            assert!(b.cmp(&a) == exp.reverse());
            assert!(a.partial_cmp(&b) == Some(exp));
            assert!(a != b);
            assert!((a < b) == (exp == Ordering::Less));
            kani::cover!(true, "reached");
        }
    };
}

/// Complete run of the public iterator: 2^(2^n) items, first is zero, each the successor of the previous, then None twice.
macro_rules! c08_iter_full {
    ($name:ident, $fam:ident, $u:literal) => {
        #[kani::proof]
        #[kani::unwind($u)]
        pub fn $name() {
            use crate::verif_common::$fam as F;
            let total: usize = 1usize << (1usize << F::N);
            let mut it = F::all_functions();
            let mut k: usize = 0;
            while k < total {
                let item = it.next();
                assert!(item.is_some());
                let l = item.unwrap();
                assert!(l.blocks().len() == 1);
                assert!(l.num_vars() == F::N);
                // the k-th item is the number k: strictly increasing by exactly one from constant zero
                assert!(l.blocks()[0] == k as u64);
                k += 1;
            }
            assert!(it.next().is_none());
            assert!(it.next().is_none());
            kani::cover!(true, "reached");
        }
    };
}

/// First items of the public iterator for any size.
macro_rules! c08_iter_first {
    ($name:ident, $fam:ident, $u:literal) => {
        #[kani::proof]
        #[kani::unwind($u)]
        pub fn $name() {
            use crate::verif_common::$fam as F;
            let mut it = F::all_functions();
            let a = it.next().unwrap();
            let b = it.next().unwrap();
            let mut i = 0;
            while i < F::T {
                assert!(a.blocks()[i] == 0);
                assert!(b.blocks()[i] == if i == 0 { 1 } else { 0 });
                i += 1;
            }
            assert!(a < b);
            if F::N >= 1 {
                let c = it.next().unwrap();
                assert!(c.blocks()[0] == 2);
                assert!(b < c);
            } else {
                assert!(it.next().is_none());
            }
            kani::cover!(true, "reached");
        }
    };
}

/// The order matches the lexicographic order of the fixed-width hex strings (small n: printing is expensive).
macro_rules! c08_hexorder {
    ($name:ident, $fam:ident, $u:literal) => {
        #[kani::proof]
        #[kani::unwind($u)]
        pub fn $name() {
            use crate::verif_common::$fam as F;
            let a = F::any();
            let b = F::any();
            let sa = a.to_hex_string();
            let sb = b.to_hex_string();
            assert!(sa.len() == sb.len());
            assert!(sa.as_bytes().cmp(sb.as_bytes()) == a.cmp(&b));
            kani::cover!(a < b, "less");
            kani::cover!(true, "reached");
        }
    };
}

// ---- instantiations (generated by /verif/lib/registry.py) ----
