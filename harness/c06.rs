// C06 -- top_decomposition / unateness classification is sound and complete (public API only).
//
// Oracle in two solver-checked pieces (DESIGN.md C06): the harness computes the two cofactor tables
// word by word with its own mask/stride code (`cof`); lemma H shows bit m of C0 / C1 is
// f(m & !(1<<v)) / f(m | 1<<v), i.e. they ARE the cofactors by definition; the main harness derives
// the expected class from C0, C1 by the property's priority order and asserts equality.
use crate::verif_common::*;
use crate::DecompositionType;

const VM: [u64; 6] = [
    0xaaaa_aaaa_aaaa_aaaa,
    0xcccc_cccc_cccc_cccc,
    0xf0f0_f0f0_f0f0_f0f0,
    0xff00_ff00_ff00_ff00,
    0xffff_0000_ffff_0000,
    0xffff_ffff_0000_0000,
];

pub fn cof<const T: usize>(b: &[u64; T], v: usize) -> ([u64; T], [u64; T]) {
    let mut c0 = *b;
    let mut c1 = *b;
    if v < 6 {
        let sh = 1u32 << v;
        let m1 = VM[v];
        let mut w = 0;
        while w < T {
            let lo = b[w] & !m1;
            let hi = b[w] & m1;
            c0[w] = lo | (lo << sh);
            c1[w] = hi | (hi >> sh);
            w += 1;
        }
    } else {
        let st = 1usize << (v - 6);
        let mut w = 0;
        while w < T {
            if w & st == 0 {
                c0[w] = b[w];
                c0[w + st] = b[w];
                c1[w] = b[w + st];
                c1[w + st] = b[w + st];
            }
            w += 1;
        }
    }
    (c0, c1)
}

pub fn expected_class<const T: usize>(n: usize, c0: &[u64; T], c1: &[u64; T]) -> (DecompositionType, bool, bool) {
    let mask = low_mask(n);
    let (mut eq, mut c0z, mut c1z, mut c0o, mut c1o, mut opp, mut pos, mut neg) =
        (true, true, true, true, true, true, true, true);
    let mut w = 0;
    while w < T {
        eq &= c0[w] == c1[w];
        c0z &= c0[w] == 0;
        c1z &= c1[w] == 0;
        c0o &= c0[w] == mask;
        c1o &= c1[w] == mask;
        opp &= c0[w] == (!c1[w] & mask);
        pos &= c0[w] & !c1[w] == 0;
        neg &= c1[w] & !c0[w] == 0;
        w += 1;
    }
    let cls = if eq {
        DecompositionType::Independent
    } else if c0z && c1o {
        DecompositionType::Identity
    } else if c0o && c1z {
        DecompositionType::Negation
    } else if c0z {
        DecompositionType::And
    } else if c1o {
        DecompositionType::Or
    } else if c0o {
        DecompositionType::Le
    } else if c1z {
        DecompositionType::Lt
    } else if opp {
        DecompositionType::Xor
    } else {
        DecompositionType::None
    };
    (cls, pos, neg)
}

/// Lemma H: the harness cofactor tables are the cofactors by definition (no library code involved
/// except `from_blocks`-free bit reads).
macro_rules! c06_lemma_h {
    ($name:ident, $n:literal, $t:literal, $u:literal) => {
        #[kani::proof]
        #[kani::unwind($u)]
        pub fn $name() {
            const N: usize = $n;
            const T: usize = $t;
            let b = any_blocks::<T>(N);
            let v = any_var(N);
            let m = any_m(N);
            let (c0, c1) = cof::<T>(&b, v);
            assert!(bit(&c0, m) == bit(&b, m & !(1usize << v)));
            assert!(bit(&c1, m) == bit(&b, m | (1usize << v)));
            assert!(wf(N, &c0) && wf(N, &c1));
            kani::cover!(v <= 5, "in-word variable");
            kani::cover!(v >= 6, "cross-word variable");
            kani::cover!(true, "reached");
        }
    };
}

macro_rules! c06_main {
    ($name:ident, $fam:ident, $u:literal) => {
        #[kani::proof]
        #[kani::unwind($u)]
        pub fn $name() {
            use crate::verif_common::$fam as F;
            let b = any_blocks::<{ F::T }>(F::N);
            let f = F::mk(&b);
            let v = any_var(F::N);
            let (c0, c1) = cof::<{ F::T }>(&b, v);
            let (cls, pos, neg) = expected_class::<{ F::T }>(F::N, &c0, &c1);
            let got = f.top_decomposition(v);
            assert!(got == cls);
            assert!(f.is_pos_unate(v) == pos);
            assert!(f.is_neg_unate(v) == neg);
            kani::cover!(cls == DecompositionType::Independent, "Independent");
            kani::cover!(cls == DecompositionType::Identity, "Identity");
            kani::cover!(cls == DecompositionType::Negation, "Negation");
            kani::cover!(cls == DecompositionType::And, "And");
            kani::cover!(cls == DecompositionType::Or, "Or");
            kani::cover!(cls == DecompositionType::Le, "Le");
            kani::cover!(cls == DecompositionType::Lt, "Lt");
            kani::cover!(cls == DecompositionType::Xor, "Xor");
            kani::cover!(cls == DecompositionType::None, "None");
            kani::cover!(v >= 6, "cross-word variable");
            kani::cover!(pos && !neg, "strictly positive unate");
            kani::cover!(true, "reached");
        }
    };
}

/// Same as c06_main with a concrete variable (large n, where the symbolic-v query is too heavy).
macro_rules! c06_main_v {
    ($name:ident, $fam:ident, $v:literal, $u:literal) => {
        #[kani::proof]
        #[kani::unwind($u)]
        pub fn $name() {
            use crate::verif_common::$fam as F;
            let b = any_blocks::<{ F::T }>(F::N);
            let f = F::mk(&b);
            let v: usize = $v;
            let (c0, c1) = cof::<{ F::T }>(&b, v);
            let (cls, pos, neg) = expected_class::<{ F::T }>(F::N, &c0, &c1);
            assert!(f.top_decomposition(v) == cls);
            assert!(f.is_pos_unate(v) == pos);
            assert!(f.is_neg_unate(v) == neg);
            kani::cover!(cls == DecompositionType::None, "None");
            kani::cover!(cls == DecompositionType::Xor, "Xor");
            kani::cover!(true, "reached");
        }
    };
}

/// Lemma H with a concrete variable.
macro_rules! c06_lemma_h_v {
    ($name:ident, $n:literal, $t:literal, $v:literal, $u:literal) => {
        #[kani::proof]
        #[kani::unwind($u)]
        pub fn $name() {
            const N: usize = $n;
            const T: usize = $t;
            let b = any_blocks::<T>(N);
            let v: usize = $v;
            let m = any_m(N);
            let (c0, c1) = cof::<T>(&b, v);
            assert!(bit(&c0, m) == bit(&b, m & !(1usize << v)));
            assert!(bit(&c1, m) == bit(&b, m | (1usize << v)));
            kani::cover!(true, "reached");
        }
    };
}

// ---- instantiations (generated by /verif/lib/registry.py) ----
