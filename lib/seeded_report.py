#!/usr/bin/env python3
"""Print a markdown table of the seeded defects under /verif/seeded (from their meta.json)."""
import glob
import json
import os

VERIF = os.path.dirname(os.path.dirname(os.path.abspath(__file__)))
rows = []
for d in sorted(glob.glob(os.path.join(VERIF, "seeded", "*"))):
    mp = os.path.join(d, "meta.json")
    if not os.path.exists(mp):
        continue
    m = json.load(open(mp))
    name = os.path.basename(d)
    checks = []
    for c, r in m.get("checks", {}).items():
        if r["exit"] == 1 and r["violation_lines"]:
            v = "**VIOLATION**"
        elif r["exit"] == 0:
            v = "passes (miss)"
        elif r["exit"] == 2:
            v = "inconclusive (exit 2)"
        else:
            v = "exit %s" % r["exit"]
        tier = m.get("tier", "quick") + ((" " + m["only"]) if m.get("only") else "")
        checks.append("%s %s: %s" % (c, tier, v))
    rows.append("| %s | %s | %s | %s |" % (name, m.get("needs_to_manifest", "")[:220], "yes" if m.get("confirmed") else "NO", "; ".join(checks)))
print("| seeded defect | what it needs in order to manifest | confirmed (compiles, suite passes, demo fails with / passes without) | checks |")
print("|---|---|---|---|")
print("\n".join(rows))
