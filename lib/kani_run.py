"""Run Kani harnesses of a mirror crate in parallel (memory-weighted) and parse the verdicts."""
import os
import re
import resource
import shutil
import subprocess
import threading
import time

KANI_ENV = {
    "CARGO_NET_OFFLINE": "true",
    "CARGO_TERM_COLOR": "never",
}

CHECK_RE = re.compile(r"^Check (\d+): (.+)\n\s+- Status: (\S+)\n\s+- Description: \"(.*)\"\n(?:\s+- Location: (.*)\n)?", re.M)


class HarnessResult:
    def __init__(self, spec):
        self.spec = spec
        self.status = "NOT_RUN"      # SUCCESS | FAILED | TIMEOUT | OOM | ERROR | COMPILE_ERROR | NOT_RUN
        self.failed_checks = []      # list of dicts (name, status, description, location, klass)
        self.checks_total = 0
        self.checks_failed = 0
        self.covers = {}             # description -> SATISFIED | UNSATISFIABLE | UNREACHABLE
        self.wall_s = 0.0
        self.verif_time_s = None
        self.symex_steps = None
        self.vccs = None
        self.sat_vars = None
        self.sat_clauses = None
        self.solver_s = None
        self.stubs = []
        self.log = ""
        self.max_rss_mb = None
        self.unwind_failed = False
        self.functions = set()       # functions of the crate under verification that carry checks in this harness

    def summary(self):
        return {
            "harness": self.spec["name"],
            "status": self.status,
            "checks": self.checks_total,
            "failed": self.checks_failed,
            "covers": self.covers,
            "wall_s": round(self.wall_s, 2),
            "verification_time_s": self.verif_time_s,
            "symex_steps": self.symex_steps,
            "vccs": self.vccs,
            "sat_vars": self.sat_vars,
            "sat_clauses": self.sat_clauses,
            "solver_s": self.solver_s,
            "config": self.spec.get("cfg", "dev"),
            "unwind": self.spec.get("unwind"),
            "stubs": self.stubs,
            "functions": sorted(self.functions),
        }


def classify_check(name, desc, loc, repo_src):
    """overflow | debug-only | always-on | harness | unwind | internal"""
    if "unwinding assertion" in desc or ".unwind." in name:
        return "unwind"
    if loc and "verif_" in loc:
        if desc.startswith("assertion failed"):
            return "harness"
        # arithmetic / bounds failure inside harness code: a bug of the check, never a violation
        return "harness-bug"
    if desc.startswith("attempt to") and "overflow" in desc:
        return "overflow"
    if loc:
        m = re.match(r"(\S+?):(\d+):(\d+)", loc)
        if m:
            path, line = m.group(1), int(m.group(2))
            cand = path
            if not os.path.isabs(cand):
                cand = os.path.join(os.path.dirname(repo_src), path)
            if not os.path.exists(cand):
                cand = os.path.join(repo_src, os.path.basename(path))
            try:
                with open(cand) as f:
                    lines = f.readlines()
                src = lines[line - 1].strip()
                if src.startswith("debug_assert"):
                    return "debug-only"
            except Exception:
                pass
    return "always-on"


def parse_output(res, out, repo_src):
    res.log = out
    for m in CHECK_RE.finditer(out):
        num, name, status, desc, loc = m.groups()
        res.checks_total += 1
        if loc and loc.startswith("src/") and "verif_" not in loc.split(" in function ")[0]:
            fm = re.search(r" in function (.*)$", loc)
            if fm:
                res.functions.add(fm.group(1))
        if ".cover." in name or name.endswith(".cover"):
            # cover property: keyed by its description
            res.covers[desc] = status
            continue
        if status not in ("SUCCESS",):
            if status in ("FAILURE", "UNDETERMINED", "UNREACHABLE"):
                if status == "UNREACHABLE":
                    continue
                klass = classify_check(name, desc, loc, repo_src)
                if status == "FAILURE":
                    res.checks_failed += 1
                    if klass == "unwind":
                        res.unwind_failed = True
                res.failed_checks.append({"name": name, "status": status, "description": desc,
                                          "location": loc, "class": klass})
    m = re.search(r"Verification Time: ([0-9.]+)s", out)
    if m:
        res.verif_time_s = float(m.group(1))
    m = re.findall(r"size of program expression: (\d+) steps", out)
    if m:
        res.symex_steps = int(m[-1])
    m = re.findall(r"Generated (\d+) VCC\(s\), (\d+) remaining after simplification", out)
    if m:
        res.vccs = int(m[-1][1])
    m = re.findall(r"(\d+) variables, (\d+) clauses", out)
    if m:
        res.sat_vars = max(int(x[0]) for x in m)
        res.sat_clauses = max(int(x[1]) for x in m)
    m = re.findall(r"Runtime Solver: ([0-9.e+-]+)s", out)
    if m:
        res.solver_s = round(sum(float(x) for x in m), 3)
    res.stubs = re.findall(r"- Stub: (.*)", out)
    if "VERIFICATION:- SUCCESSFUL" in out:
        res.status = "SUCCESS"
    elif "VERIFICATION:- FAILED" in out:
        res.status = "FAILED"
        if re.search(r"Status: ERROR|out of memory|std::bad_alloc|Killed|memory exhausted", out, re.I) and res.checks_failed == 0:
            res.status = "OOM"
    elif re.search(r"error(\[E\d+\])?:", out) and "Checking harness" not in out:
        res.status = "COMPILE_ERROR"
    else:
        res.status = "ERROR"
        if re.search(r"std::bad_alloc|out of memory|memory exhausted", out, re.I):
            res.status = "OOM"
    return res


def run_one(crate_dir, spec, scratch, repo_src, extra_args=()):
    """Run a single harness. spec keys: name (module::fn), cfg, features, stubbing, timeout, mem."""
    res = HarnessResult(spec)
    tdir = os.path.join(scratch, "t", re.sub(r"\W+", "_", spec["name"]) + "_" + spec.get("cfg", "dev"))
    # --no-assertion-reach-checks: Kani's per-assertion reachability instrumentation makes CBMC emit a
    # JSON trace per reachable assertion (measured 205 MB / +20 s on a 4-word harness); vacuity is
    # guarded by explicit kani::cover! statements instead.
    cmd = ["cargo", "kani", "--harness", spec["name"], "--exact", "--target-dir", tdir,
           "--no-assertion-reach-checks"]
    if spec.get("features"):
        cmd += ["--features", ",".join(spec["features"])]
    if spec.get("stubbing"):
        cmd += ["-Z", "stubbing"]
    cmd += list(extra_args)
    env = dict(os.environ)
    env.update(KANI_ENV)
    if spec.get("cfg", "dev") == "rel":
        env["CARGO_PROFILE_DEV_DEBUG_ASSERTIONS"] = "false"
    seed = spec.get("seed")
    mem_bytes = int(spec.get("mem_limit_gb", 14) * (1 << 30))

    def limit():
        resource.setrlimit(resource.RLIMIT_AS, (mem_bytes, mem_bytes))
        os.setsid()

    t0 = time.time()
    try:
        p = subprocess.Popen(cmd, cwd=crate_dir, env=env, stdout=subprocess.PIPE, stderr=subprocess.STDOUT,
                             preexec_fn=limit, text=True, errors="replace")
        try:
            out, _ = p.communicate(timeout=spec.get("timeout", 600))
            res.wall_s = time.time() - t0
            parse_output(res, out, repo_src)
        except subprocess.TimeoutExpired:
            try:
                os.killpg(p.pid, 9)
            except Exception:
                p.kill()
            out, _ = p.communicate()
            res.wall_s = time.time() - t0
            parse_output(res, out or "", repo_src)
            res.status = "TIMEOUT"
    finally:
        shutil.rmtree(tdir, ignore_errors=True)
    return res


def run_many(crate_dir, specs, scratch, repo_src, jobs=None, mem_budget_gb=44, progress=None):
    """Memory-weighted parallel scheduler. Returns list of HarnessResult in spec order."""
    if jobs is None:
        jobs = int(os.environ.get("VERIF_JOBS", "0")) or max(1, (os.cpu_count() or 4) - 2)
    pending = list(enumerate(specs))
    # heavy first
    pending.sort(key=lambda t: -t[1].get("mem", 1))
    results = [None] * len(specs)
    lock = threading.Condition()
    state = {"running": 0, "mem": 0.0}

    def worker(idx, spec):
        try:
            r = run_one(crate_dir, spec, scratch, repo_src)
        except Exception as e:  # pragma: no cover
            r = HarnessResult(spec)
            r.status = "ERROR"
            r.log = "runner exception: %r" % (e,)
        with lock:
            results[idx] = r
            state["running"] -= 1
            state["mem"] -= spec.get("mem", 1)
            lock.notify_all()
        if progress:
            progress(r)

    threads = []
    with lock:
        while pending:
            started = False
            for k, (idx, spec) in enumerate(pending):
                w = spec.get("mem", 1)
                if state["running"] < jobs and (state["mem"] + w <= mem_budget_gb or state["running"] == 0):
                    pending.pop(k)
                    state["running"] += 1
                    state["mem"] += w
                    t = threading.Thread(target=worker, args=(idx, spec), daemon=True)
                    t.start()
                    threads.append(t)
                    started = True
                    break
            if not started:
                lock.wait()
    for t in threads:
        t.join()
    return results
