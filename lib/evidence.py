"""Write /verif/evidence/<id>.json (schema /root/.vp/EVIDENCE.schema.json), level model_checking."""
import json
import os

VERIF = os.path.dirname(os.path.dirname(os.path.abspath(__file__)))

TRUSTED = [
    "rustc MIR construction for the crate (Kani's pinned nightly toolchain)",
    "Kani 0.68.0 MIR->GOTO translation and its models of core/alloc",
    "CBMC 6.11.0 bit-precise encoding, CaDiCaL SAT solver",
    "harness oracles in /verif/harness (definitional: bit m of the result equals ...)",
    "for counterexamples: native replay with the repository's own rustc (dev and release profiles)",
]


def write(prop, tier, seed, records, wall, violations, total, discharged, skipped, inconclusive,
          undecided_optional, known, extra=None):
    decided = [r for r in records if str(r.get("verdict", "")).startswith("discharged")]
    checks = sum(int(r.get("checks") or 0) for r in records)
    # distinct non-trivial = distinct harness instantiations whose verdict is a solver verdict on a
    # non-vacuous query: status SUCCESS/FAILED with the reachability cover satisfied (or, for
    # must_panic harnesses, the CALLED cover satisfied)
    nontrivial = 0
    for r in records:
        cov = r.get("covers") or {}
        if r.get("status") in ("SUCCESS", "FAILED", "UNSAT", "SAT") and (
                cov.get("reached") == "SATISFIED" or cov.get("CALLED") == "SATISFIED" or r.get("engine") in ("z3", "cvc5", "z3+cvc5")):
            nontrivial += 1
    solver_s = sum(float(r.get("solver_s") or 0) for r in records)
    samples = []
    for r in records[:6]:
        samples.append({k: r.get(k) for k in ("harness", "what", "n", "config", "unwind", "status", "verdict",
                                               "symex_steps", "sat_vars", "sat_clauses", "wall_s", "covers")})
    functions = sorted({f for r in records for f in (r.get("functions") or [])})
    cov = {
        "evaluations": max(checks, len(records)),
        "distinct_nontrivial": nontrivial,
        "rule": "one evaluation = one CBMC property (assertion, bounds/overflow check, unwinding assertion, cover) decided by the SAT solver over "
                "all symbolic inputs of its harness; distinct_nontrivial counts distinct harness instantiations (type, n, operation, configuration) "
                "whose query was decided AND whose reachability cover came back SATISFIED (non-vacuous)",
        "samples": samples,
        "obligations": total,
        "discharged": discharged,
        "checker_cmd": "./check %s --tier %s" % (prop, tier),
        "trusted_base": TRUSTED,
        "harnesses": records,
        "skipped_kernel_lemmas": skipped,
        "inconclusive": inconclusive,
        "undecided_optional": undecided_optional,
        "known_findings_reported": known,
        "solver_time_s": round(solver_s, 2),
        "exhaustive": False,
        "explanation": "bounded model checking of the compiled crate (mirror crate symlinking /repo/src); every harness is one SAT query family over fully "
                       "symbolic tables/indices/assignments at a concrete size; bounds are the sizes n and unwind values listed per harness; "
                       "unwinding assertions are enabled, timeouts/OOM are never counted as discharged",
    }
    try:
        import registry as _reg
        cov["outside_the_claim"] = _reg.OUTSIDE.get(prop, "")
    except Exception:
        pass
    ns = sorted({r["n"] for r in records if isinstance(r.get("n"), int)})
    cov["bounds"] = {"sizes_n": ns, "max_unwind": max([r.get("unwind") or 0 for r in records] + [0]),
                     "configurations": sorted({r.get("config") for r in records if r.get("config")}),
                     "note": "each harness fixes n (and the table type) concretely; table contents, indices, assignments and parameters are symbolic; unwinding assertions are enabled"}
    if functions:
        cov["functions_encoded"] = functions
        # keep the per-harness records compact: the union is reported once
        for r in records:
            if "functions" in r:
                r["functions"] = len(r["functions"])
    if extra:
        cov.update(extra)
    ev = {
        "property_id": prop,
        "tier": tier,
        "seed": int(seed),
        "level": "model_checking",
        "coverage": cov,
        "assumptions": [
            "tables are arbitrary well-formed values (right block count, no bit at position >= 2^n): the precondition of from_blocks",
            "indices / assignments in range for valid-argument harnesses",
            "sizes n are concrete per harness; contents, indices and assignments are symbolic",
            "allocation never fails (Kani default)",
        ],
        "wall_s": round(wall, 2),
        "violations": int(violations),
    }
    os.makedirs(os.path.join(VERIF, "evidence"), exist_ok=True)
    path = os.path.join(VERIF, "evidence", "%s.json" % prop)
    tmp = path + ".tmp"
    with open(tmp, "w") as f:
        json.dump(ev, f, indent=1)
    os.replace(tmp, path)
    return path
