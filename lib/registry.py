"""Harness registry: for each property, the list of harness instantiations per tier.

Every harness is one macro instantiation appended to a harness module taken from /verif/harness.
A spec is a dict:
  name      fully qualified harness name  (verif_<module>::<fn>)
  module    mirror module name (verif_c01, ...)
  source    file under /verif/harness the module text comes from
  inst      macro instantiation line appended to the module
  unwind    the unwind bound used (also inside `inst`)
  tier      'quick' | 'thorough'   (thorough runs quick + thorough)
  mem       estimated peak memory in GB (scheduler weight)
  timeout   seconds
  cfg       'dev' | 'rel'
  level     'public' | 'kernel'   (kernel: names private functions; compile failure => skipped)
  kind      'holds' (default): every check must succeed
            'must_panic': the call under test must never return (cover RETURNED unsatisfiable)
  covers    dict description -> expected status ('SATISFIED' | 'UNSAT')
  n, fam    size / family, for the evidence
  what      one-line obligation text for the evidence samples
"""

STATIC_T = {0: 1, 1: 1, 2: 1, 3: 1, 4: 1, 5: 1, 6: 1, 7: 2, 8: 4, 9: 8, 10: 16, 11: 32, 12: 64, 13: 128, 14: 256}


def T(n):
    return STATIC_T[n]


def fam_name(kind, n):
    return ("s" if kind == "s" else "d") + str(n)


def mem_for(n, base=1.0):
    if n <= 8:
        return base
    return {9: 2, 10: 3, 11: 4, 12: 6, 13: 10, 14: 16}[n] * base


def spec(module, source, macro, fn, args, unwind, **kw):
    name = "%s::%s" % (module, fn)
    arglist = ", ".join([fn] + [str(a) for a in args] + [str(unwind)])
    s = {
        "name": name,
        "module": module,
        "source": source,
        "inst": "%s!(%s);" % (macro, arglist),
        "unwind": unwind,
        "tier": "quick",
        "mem": 1.0,
        "timeout": 900,
        "cfg": "dev",
        "level": "public",
        "kind": "holds",
        "covers": {"reached": "SATISFIED"},
        "features": [],
        "stubbing": False,
    }
    s.update(kw)
    return s


def plain(module, source, fn, **kw):
    """A harness written out as a plain #[kani::proof] function in the source file (no instantiation line)."""
    uw = kw.pop("unwind", None)
    s = spec(module, source, "", fn, [], 0, **kw)
    s["inst"] = ""
    s["unwind"] = uw
    return s


# ------------------------------------------------------------------------------------------------
# C01
# ------------------------------------------------------------------------------------------------

def c01(tier, seed):
    out = []
    quick_static = list(range(0, 11))
    quick_dyn = [0, 3, 6, 7, 9]
    # the seed rotates one extra dynamic size into the quick tier
    extra = [1, 2, 4, 5, 8][seed % 5]
    quick_dyn = sorted(set(quick_dyn + [extra]))
    for kind, sizes in (("s", range(0, 13)), ("d", range(0, 13))):
        for n in sizes:
            q = n in (quick_static if kind == "s" else quick_dyn)
            fam = fam_name(kind, n)
            u = T(n) + 2
            for macro, op in (("c01_anchor", "anchor"), ("c01_not", "not"), ("c01_and", "and"),
                              ("c01_or", "or"), ("c01_xor", "xor"), ("c01_alias", "alias")):
                fn = "c01_%s_%s" % (op, fam)
                covers = {"reached": "SATISFIED"}
                if op == "alias":
                    covers.update({"bit set": "SATISFIED"})
                elif op == "anchor":
                    covers.update({"bit set": "SATISFIED", "bit clear": "SATISFIED"})
                else:
                    covers.update({"result bit set": "SATISFIED", "result bit clear": "SATISFIED"})
                out.append(spec("verif_c01", "c01.rs", macro, fn, [fam], u,
                                tier="quick" if q else "thorough", n=n, fam=fam,
                                mem=mem_for(n), timeout=900 if n <= 8 else 2400,
                                covers=covers,
                                what="%s on %s n=%d: every syntactic form r satisfies r(m) == op(a(m), b(m)) for symbolic a, b, m; wf(r); forms agree; borrowed operands unchanged"
                                     % (op.upper(), "LutN" if kind == "s" else "Lut", n)))
    return out


# ------------------------------------------------------------------------------------------------
# C03
# ------------------------------------------------------------------------------------------------

def c03(tier, seed):
    out = []
    quick_dyn = sorted(set([1, 3, 6, 7, 8] + [[2, 4, 5][seed % 3]]))
    for kind in ("s", "d"):
        for n in range(1, 13):
            q = (n <= 8) if kind == "s" else (n in quick_dyn)
            fam = fam_name(kind, n)
            u = T(n) + 2
            tname = "LutN" if kind == "s" else "Lut"
            for macro, op in (("c03_flip", "flip"), ("c03_swap", "swap"), ("c03_swap_adjacent", "swap_adjacent"),
                              ("c03_cofactors", "cofactors"), ("c03_from_cofactors", "from_cofactors")):
                if op == "swap_adjacent" and n < 2:
                    continue
                if op in ("swap", "swap_adjacent") and n >= 11:
                    # symbolic index pairs at n >= 11 never finished (3000 s timeout / OOM, measured twice);
                    # the concrete-index harnesses below cover these sizes
                    continue
                covers = {"reached": "SATISFIED"}
                if op in ("flip", "cofactors", "from_cofactors"):
                    covers["in-word index"] = "SATISFIED"
                    covers["cross-word index"] = "SATISFIED" if n >= 7 else "UNSAT"
                if op == "swap":
                    covers["same index"] = "SATISFIED"
                    covers["both in-word"] = "SATISFIED" if n >= 2 else "UNSAT"
                    covers["one in-word one cross-word"] = "SATISFIED" if n >= 7 else "UNSAT"
                    covers["both cross-word"] = "SATISFIED" if n >= 8 else "UNSAT"
                if op == "swap_adjacent":
                    covers["straddles the word boundary"] = "SATISFIED" if n >= 7 else "UNSAT"
                heavy = op in ("swap", "flip") and n >= 11
                out.append(spec("verif_c03", "c03.rs", macro, "c03_%s_%s" % (op, fam), [fam], u,
                                tier="quick" if q else "thorough", n=n, fam=fam,
                                mem=mem_for(n), timeout=900 if n <= 8 else 3000,
                                mem_limit_gb=14 if n <= 10 else 30,
                                covers=covers, optional=(n >= 12 or (n >= 11 and op in ("swap", "swap_adjacent"))),
                                what="%s on %s n=%d: symbolic table, symbolic index(es) < n, symbolic assignment m; result bit m equals the defining source bit; wf; in-place == copying"
                                     % (op, tname, n)))
    # large tables: concrete indices (quick: a few at n = 9, 10; thorough: every index / representative pairs up to n = 12)
    for kind in ("s", "d"):
        tname = "LutN" if kind == "s" else "Lut"
        for n in range(9, 13):
            fam = fam_name(kind, n)
            u = T(n) + 2
            idx = list(range(n))
            pairs = sorted(set([(i, i + 1) for i in range(n - 1)] + [(0, n - 1), (5, 6), (5, n - 1), (2, 7), (6, n - 1), (7, n - 2), (3, 4), (0, 5)]))
            quick_idx = {9: list(range(9)), 10: list(range(10)), 11: [8, 10], 12: [8, 11]}[n] if kind == "s" else ({10: [8], 12: [7]}.get(n, []))
            quick_pairs = ({9: pairs, 10: pairs, 11: [(8, 9), (5, 10)], 12: [(10, 11), (6, 11)]}[n]) if kind == "s" else ([(5, 6)] if n == 10 else [])
            for op, oname in ((0, "flip"), (1, "cofactors"), (2, "from_cofactors")):
                for i in idx:
                    q = i in quick_idx
                    if kind == "d" and not q and i not in (0, 6, n - 2, n - 1):
                        continue
                    out.append(spec("verif_c03", "c03.rs", "c03_fixed", "c03_%s_%s_i%d" % (oname, fam, i), [fam, op, i, 0], u,
                                    tier="quick" if q else "thorough", n=n, fam=fam, mem=mem_for(n, 0.5), timeout=2400,
                                    what="%s(%d) on %s n=%d (concrete index, symbolic table and assignment): result bit m equals the defining source bit; in-place == copying; recomposition" % (oname, i, tname, n)))
            for (i, j) in pairs:
                q = (i, j) in quick_pairs
                if kind == "d" and (i, j) not in [(5, 6), (0, n - 1), (n - 2, n - 1)]:
                    continue
                out.append(spec("verif_c03", "c03.rs", "c03_fixed", "c03_swap_%s_i%d_j%d" % (fam, i, j), [fam, 3, i, j], u,
                                tier="quick" if q else "thorough", n=n, fam=fam, mem=mem_for(n, 0.5), timeout=2400,
                                what="swap(%d,%d) on %s n=%d (concrete indices, symbolic table and assignment): result bit m equals f(m with bits exchanged); symmetric in the arguments; in-place == copying; swap_adjacent when adjacent" % (i, j, tname, n)))
    return out


# ------------------------------------------------------------------------------------------------
# C11
# ------------------------------------------------------------------------------------------------

def c11(tier, seed):
    out = []
    quick_dyn = sorted(set([0, 3, 6, 7, 8] + [[1, 2, 4, 5][seed % 4]]))
    for kind in ("s", "d"):
        for n in range(0, 13):
            q = (n <= 8) if kind == "s" else (n in quick_dyn)
            fam = fam_name(kind, n)
            u = max(T(n), n, 7) + 2   # COUNT_MASKS has 7 entries
            tname = "LutN" if kind == "s" else "Lut"
            for macro, op in (("c11_consts", "consts"), ("c11_nth_var", "nth_var"), ("c11_symmetric", "symmetric"),
                              ("c11_equals", "equals"), ("c11_threshold", "threshold"),
                              ("c11_parity_majority", "parity_majority")):
                if op == "nth_var" and n < 1:
                    continue
                covers = {"reached": "SATISFIED"}
                if op == "nth_var":
                    covers["in-word index"] = "SATISFIED"
                    covers["cross-word index"] = "SATISFIED" if n >= 7 else "UNSAT"
                if op == "symmetric":
                    covers["assignment in a high word"] = "SATISFIED" if n >= 7 else "UNSAT"
                if op == "equals":
                    for c in ("k = n+1", "k = 63", "k = 64", "k = 65", "k = usize::MAX", "k in range"):
                        covers[c] = "SATISFIED"
                if op == "threshold":
                    for c in ("k = 0", "k = n+1", "k = 64", "k = usize::MAX"):
                        covers[c] = "SATISFIED"
                    covers["k in range"] = "SATISFIED" if n >= 1 else "UNSAT"
                q2 = q or (kind == "s" and n <= 10 and op != "parity_majority")
                out.append(spec("verif_c11", "c11.rs", macro, "c11_%s_%s" % (op, fam), [fam], u,
                                tier="quick" if q2 else "thorough", n=n, fam=fam,
                                mem=mem_for(n), timeout=900 if n <= 8 else 3000,
                                covers=covers,
                                what="%s on %s n=%d: symbolic assignment m, parameter (k / c / i) over ALL usize values; value(m) equals the definition via popcount(m); wf"
                                     % (op, tname, n)))
    return out


# ------------------------------------------------------------------------------------------------
# C08
# ------------------------------------------------------------------------------------------------

def c08(tier, seed):
    out = []
    quick_dyn = sorted(set([0, 3, 6, 7, 8] + [[1, 2, 4, 5][seed % 4]]))
    for kind in ("s", "d"):
        tname = "LutN" if kind == "s" else "Lut"
        for n in range(0, 13):
            q = (n <= 8) if kind == "s" else (n in quick_dyn)
            fam = fam_name(kind, n)
            u = 8 * T(n) + 2  # derived == on slices compares bytes
            out.append(spec("verif_c08", "c08.rs", "c08_cmp", "c08_cmp_%s" % fam, [fam], u,
                            tier="quick" if q else "thorough", n=n, fam=fam, mem=mem_for(n),
                            timeout=900 if n <= 8 else 3000,
                            covers={"reached": "SATISFIED", "less": "SATISFIED", "equal": "SATISFIED"},
                            what="cmp on %s n=%d: symbolic a, b; cmp == most-significant-word-first numeric comparison; agrees with ==, <, >, partial_cmp; highest differing assignment decides" % (tname, n)))
            out.append(spec("verif_c08", "c08.rs", "c08_trans", "c08_trans_%s" % fam, [fam], u,
                            tier="quick" if q else "thorough", n=n, fam=fam, mem=mem_for(n),
                            timeout=900 if n <= 8 else 3000,
                            covers={"reached": "SATISFIED", "strict chain": "SATISFIED" if n >= 1 else "UNSAT"},
                            what="order on %s n=%d: symbolic triple; transitivity and antisymmetry" % (tname, n)))
            if n <= 3:
                total = 1 << (1 << n)
                out.append(spec("verif_c08", "c08.rs", "c08_iter_full", "c08_iter_full_%s" % fam, [fam], total + 3,
                                tier="quick" if n <= 2 else "thorough", n=n, fam=fam, mem=2 if n == 3 else 1,
                                timeout=2400,
                                what="all_functions on %s n=%d: complete run, item k is the number k for k = 0..2^(2^n)-1, then None, None" % (tname, n)))
            else:
                if n <= 9:
                    out.append(spec("verif_c08", "c08.rs", "c08_iter_first", "c08_iter_first_%s" % fam, [fam], T(n) + 2,
                                    tier="quick" if q else "thorough", n=n, fam=fam, mem=mem_for(n),
                                    what="all_functions on %s n=%d: first three items are 0, 1, 2" % (tname, n)))
    for fam, n in (("s0", 0), ("s1", 1), ("s2", 2), ("d2", 2), ("s3", 3)):
        out.append(spec("verif_c08", "c08.rs", "c08_hexorder", "c08_hexorder_%s" % fam, [fam], 70,
                        tier="thorough", n=n, fam=fam, mem=6, mem_limit_gb=30, timeout=3000, optional=True,
                        covers={"reached": "SATISFIED", "less": "SATISFIED"},
                        what="%s n=%d: the order of two symbolic tables equals the lexicographic order of their to_hex_string renderings" % ("LutN" if fam[0] == "s" else "Lut", n)))
    pairs = [(0, 1), (1, 2), (2, 3), (5, 6), (6, 7), (7, 6), (7, 8), (8, 3), (3, 9), (10, 9), (11, 12), (12, 0)]
    for (a, b) in pairs:
        q = max(a, b) <= 8
        out.append(spec("verif_c08", "c08.rs", "c08_diffn", "c08_diffn_d%d_d%d" % (a, b), ["d%d" % a, "d%d" % b],
                        8 * max(T(a), T(b)) + 2, tier="quick" if q else "thorough", n=max(a, b), fam="d%d,d%d" % (a, b),
                        mem=mem_for(max(a, b)),
                        what="Lut of %d vs %d variables: ordered by number of variables first, never equal" % (a, b)))
    # kernel lemma: successor from an arbitrary table
    for n in range(0, 13):
        out.append(spec("verif_k08", "k08.rs", "k08_next", "k08_next_%d" % n, [n, T(n)], T(n) + 2,
                        tier="quick" if n <= 9 else "thorough", n=n, fam="kernel", level="kernel", mem=mem_for(n),
                        covers={"reached": "SATISFIED", "low word all ones": "SATISFIED", "wrapped to zero": "SATISFIED"},
                        what="operations::next_inplace n=%d from an ARBITRARY well-formed table: result == table + 1 mod 2^(2^n) (multi-word carry), return value == (result != 0), no check fires" % n))
    return out


# ------------------------------------------------------------------------------------------------
# C17
# ------------------------------------------------------------------------------------------------

def c17(tier, seed):
    out = []
    quick_dyn = sorted(set([0, 2, 5, 6, 7, 8] + [[1, 3, 4][seed % 3]]))
    for kind in ("s", "d"):
        tname = "LutN" if kind == "s" else "Lut"
        for n in range(0, 9):
            q = True if kind == "s" else (n in quick_dyn)
            fam = fam_name(kind, n)
            u = T(n) + 3
            for cfg in ("dev", "rel"):
                sweep_idx = list(range(n, n + 71)) + [2 ** 64 - 1]
                out.append(spec("verif_c17", "c17.rs", "c17_index", "c17_index_%s" % fam, [fam], u,
                                tier="quick" if q else "thorough", n=n, fam=fam, cfg=cfg, kind="must_panic",
                                covers={"CALLED": "SATISFIED", "RETURNED": "UNSAT"}, sweep=sweep_idx,
                                what="%s n=%d [%s]: nth_var/flip/swap/swap_adjacent/cofactors/from_cofactors/top_decomposition/is_*_unate (+ in-place forms) with index in [n, n+70] U {usize::MAX}, arbitrary table: the call never returns" % (tname, n, cfg)))
                nb = 1 << n
                out.append(spec("verif_c17", "c17.rs", "c17_assign", "c17_assign_%s" % fam, [fam], u,
                                tier="quick" if q else "thorough", n=n, fam=fam, cfg=cfg, kind="must_panic",
                                covers={"CALLED": "SATISFIED", "RETURNED": "UNSAT"},
                                sweep=list(range(nb, nb + 71)) + [2 ** 64 - 1],
                                what="%s n=%d [%s]: value/get_bit/set_bit/unset_bit/set_value with assignment in [2^n, 2^n+70] U {usize::MAX}: the call never returns" % (tname, n, cfg)))
                out.append(spec("verif_c17", "c17.rs", "c17_blocks", "c17_blocks_%s" % fam, [fam], u + 2,
                                tier="quick" if q else "thorough", n=n, fam=fam, cfg=cfg, kind="must_panic",
                                covers={"CALLED": "SATISFIED", "RETURNED": "UNSAT"},
                                what="%s n=%d [%s]: from_blocks with a slice of any length in 0..=T+2 other than T: never returns" % (tname, n, cfg)))
            out.append(spec("verif_c17", "c17.rs", "c17_valid", "c17_valid_%s" % fam, [fam], 8 * T(n) + 3,
                            tier="quick" if q else "thorough", n=n, fam=fam, cfg="dev",
                            what="%s n=%d [dev]: every index/assignment-taking method on valid symbolic arguments: no debug_assert!, overflow or bounds check can fire (so debug and release builds agree)" % (tname, n)))
    pairs_q = [(0, 1), (1, 0), (3, 4), (6, 7), (7, 6), (7, 8)]
    pairs_t = [(2, 3), (5, 6), (6, 5), (8, 7), (4, 8), (8, 0)]
    for (a, b) in pairs_q + pairs_t:
        for cfg in ("dev", "rel"):
            out.append(spec("verif_c17", "c17.rs", "c17_mismatch", "c17_mismatch_d%d_d%d" % (a, b),
                            ["d%d" % a, "d%d" % b], max(T(a), T(b)) + 3,
                            tier="quick" if (a, b) in pairs_q else "thorough", n=max(a, b), fam="d%d,d%d" % (a, b),
                            cfg=cfg, kind="must_panic", covers={"CALLED": "SATISFIED", "RETURNED": "UNSAT"},
                            what="Lut of %d vs %d variables [%s]: and/or/xor (named, in-place, 12 operator-trait forms, 6 compound assignments), from_cofactors, bdd_complexity: never returns" % (a, b, cfg)))
    return out


def c17_extra(scratch, tier, seed, log):
    """The valid-argument half relies on: the two profiles differ only by checks.  Refuse that
    argument if the crate contains code conditional on debug_assertions."""
    import glob
    import os as _os
    import mirror as _m
    hits = []
    for path in glob.glob(_os.path.join(_m.repo_src(), "**", "*.rs"), recursive=True):
        with open(path) as f:
            for k, line in enumerate(f, 1):
                if "debug_assertions" in line or "overflow_checks" in line:
                    hits.append("%s:%d" % (path, k))
    rec = {"harness": "source-scan: no cfg(debug_assertions)/cfg(overflow_checks)-conditional code in /repo/src",
           "status": "SUCCESS" if not hits else "FAILED", "engine": "scan", "checks": 1,
           "what": "precondition of the argument 'debug and release differ only by debug_assert!/overflow checks'",
           "verdict": "discharged" if not hits else "inconclusive",
           "detail": "" if not hits else "profile-conditional code found at " + ", ".join(hits[:5]),
           "covers": {"reached": "SATISFIED"}}
    return [rec]


# ------------------------------------------------------------------------------------------------
# C02
# ------------------------------------------------------------------------------------------------

def c02(tier, seed):
    out = []
    quick_dyn = sorted(set([0, 3, 6, 7, 8] + [[1, 2, 4, 5][seed % 4]]))
    for kind in ("s", "d"):
        tname = "LutN" if kind == "s" else "Lut"
        for n in range(0, 13):
            q = (n <= 8) if kind == "s" else (n in quick_dyn)
            fam = fam_name(kind, n)
            tr = "quick" if q else "thorough"
            cap = 8 * T(n) + 24
            out.append(spec("verif_c02", "c02.rs", "c02_ext", "c02_ext_%s" % fam, [fam], cap + 2,
                            tier=tr, n=n, fam=fam, mem=mem_for(n), timeout=900 if n <= 8 else 3000,
                            covers={"reached": "SATISFIED", "equal pair": "SATISFIED", "different pair": "SATISFIED"},
                            what="%s n=%d: symbolic a, b: a==b iff no differing assignment (Skolem witness = lowest differing bit, must be < 2^n); cmp==Equal iff ==; equal values feed identical byte streams to a recording Hasher" % (tname, n)))
            out.append(spec("verif_c02", "c02.rs", "c02_step_ops", "c02_step_ops_%s" % fam, [fam], 8 * T(n) + 2,
                            tier=tr, n=n, fam=fam, mem=mem_for(n), timeout=900 if n <= 8 else 3000,
                            covers={"reached": "SATISFIED", "last arm": "SATISFIED"},
                            what="%s n=%d: one step of each of the 28 operator forms from arbitrary well-formed operands yields a well-formed table" % (tname, n)))
            out.append(spec("verif_c02", "c02.rs", "c02_step_transforms", "c02_step_transforms_%s" % fam, [fam], 8 * T(n) + 2,
                            tier=tr, n=n, fam=fam, mem=mem_for(n, 1.5), timeout=900 if n <= 8 else 3000, optional=(n >= 11),
                            mem_limit_gb=14 if n <= 10 else 30,
                            covers={"reached": "SATISFIED", "set_value arm": "SATISFIED"},
                            what="%s n=%d: set_bit/unset_bit/set_value/flip/swap/swap_adjacent (+in-place)/cofactors/from_cofactors from arbitrary well-formed tables and symbolic in-range arguments keep well-formedness; set_value changes exactly one assignment" % (tname, n)))
            out.append(spec("verif_c02", "c02.rs", "c02_step_ctors", "c02_step_ctors_%s" % fam, [fam], max(8 * T(n), 8) + 2,
                            tier=tr, n=n, fam=fam, mem=mem_for(n), timeout=900 if n <= 8 else 3000,
                            covers={"reached": "SATISFIED", "symmetric with all-ones mask": "SATISFIED"},
                            what="%s n=%d: every named constructor with its parameter ranging over all usize, Default, and LutN->Lut conversion produce well-formed tables" % (tname, n)))
            if kind == "s" and n <= 6:
                out.append(spec("verif_c02", "c02.rs", "c02_step_tryfrom", "c02_step_tryfrom_%s" % fam, [fam], 12,
                                tier="quick", n=n, fam=fam,
                                what="Lut%d::try_from(Lut of every size 0..=6 with arbitrary well-formed contents): Ok exactly for the same size, and then a well-formed table with the same blocks" % n))
            if n <= 9:
                out.append(spec("verif_c02", "c02.rs", "c02_step_iter", "c02_step_iter_%s" % fam, [fam], 8 * T(n) + 2,
                                tier=tr, n=n, fam=fam, mem=mem_for(n),
                                what="%s n=%d: items handed out by all_functions are well-formed and distinct (first two)" % (tname, n)))
    for (a, b) in [(0, 1), (1, 2), (2, 0), (5, 6), (6, 5), (3, 6), (7, 8), (9, 8), (12, 11)]:
        out.append(spec("verif_c02", "c02.rs", "c02_diffn", "c02_diffn_d%d_d%d" % (a, b), ["d%d" % a, "d%d" % b],
                        8 * max(T(a), T(b)) + 2, tier="quick" if max(a, b) <= 8 else "thorough", n=max(a, b),
                        fam="d%d,d%d" % (a, b), mem=mem_for(max(a, b)),
                        covers={"reached": "SATISFIED", "same first block": "SATISFIED" if T(a) == T(b) else "UNSAT"},
                        what="Lut of %d vs %d variables never compare equal, even with identical blocks" % (a, b)))
    # the successor step of the iterator from an arbitrary state (kernel lemma shared with C08)
    for n in range(0, 13):
        out.append(spec("verif_k08", "k08.rs", "k08_next", "k08_next_%d" % n, [n, T(n)], T(n) + 2,
                        tier="quick" if n <= 8 else "thorough", n=n, fam="kernel", level="kernel", mem=mem_for(n),
                        covers={"reached": "SATISFIED", "low word all ones": "SATISFIED", "wrapped to zero": "SATISFIED"},
                        what="operations::next_inplace n=%d: the successor of an arbitrary well-formed table is well-formed" % n))
    # canonization results are well-formed (end-to-end harnesses shared with C04/C05, small sizes)
    for h in c04_e2e("C02"):
        if h["n"] <= 2 and h["fam"].startswith("s"):
            out.append(h)
        elif h["n"] == 3 and h["fam"].startswith("s") and "npn" not in h["name"]:
            h["tier"] = "thorough"
            out.append(h)
    # the parser: every Ok value of from_hex_string is well-formed (harness shared with C09)
    for h in c09_parse_specs(kinds=("s", "d"), nmax_quick=5, nmax=6):
        if h["fam"] in ("d3", "d5"):
            h["tier"] = "thorough"
        out.append(h)
    return out


# ------------------------------------------------------------------------------------------------
# C06
# ------------------------------------------------------------------------------------------------

C06_CLASSES = ["Independent", "Identity", "Negation", "And", "Or", "Le", "Lt", "Xor", "None"]


def c06(tier, seed):
    out = []
    quick_dyn = sorted(set([1, 2, 6, 7, 8] + [[3, 4, 5][seed % 3]]))
    for n in range(1, 13):
        out.append(spec("verif_c06", "c06.rs", "c06_lemma_h", "c06_lemma_h_%d" % n, [n, T(n)], T(n) + 2,
                        tier="quick" if n <= 8 else "thorough", n=n, fam="harness-oracle", mem=mem_for(n),
                        timeout=900 if n <= 8 else 3000, optional=(n >= 11),
                        covers={"reached": "SATISFIED", "in-word variable": "SATISFIED",
                                "cross-word variable": "SATISFIED" if n >= 7 else "UNSAT"},
                        what="lemma H n=%d: the harness's word-level cofactor tables C0, C1 satisfy C0(m) = f(m & ~(1<<v)), C1(m) = f(m | 1<<v) for symbolic f, v, m" % n))
    for kind in ("s", "d"):
        tname = "LutN" if kind == "s" else "Lut"
        for n in range(1, 13):
            fam = fam_name(kind, n)
            q = (n <= 8) if kind == "s" else (n in quick_dyn)
            covers = {"reached": "SATISFIED"}
            for c in C06_CLASSES:
                covers[c] = "SATISFIED" if (n >= 3 or (n == 2 and c != "None") or c in ("Independent", "Identity", "Negation")) else "UNSAT"
            covers["cross-word variable"] = "SATISFIED" if n >= 7 else "UNSAT"
            covers["strictly positive unate"] = "SATISFIED"
            if n <= 10:
                out.append(spec("verif_c06", "c06.rs", "c06_main", "c06_main_%s" % fam, [fam], T(n) + 2,
                                tier="quick" if q else "thorough", n=n, fam=fam, mem=mem_for(n, 1.5),
                                timeout=1200 if n <= 8 else 3000, optional=(n >= 10), covers=covers,
                                what="%s n=%d: top_decomposition(v), is_pos_unate(v), is_neg_unate(v) EQUAL the class / facts derived from the cofactors by the property's priority order; symbolic table and v" % (tname, n)))
            if n >= 9:
                for v in range(n):
                    qv = (kind == "s" and (n <= 10 or (n == 11 and v in (8, 10)) or (n == 12 and v in (8, 11)))) or (kind == "d" and n == 10 and v == 8)
                    if kind == "d" and v not in (0, 6, 8, n - 1):
                        continue
                    out.append(spec("verif_c06", "c06.rs", "c06_main_v", "c06_main_%s_v%d" % (fam, v), [fam, v], T(n) + 2,
                                    tier="quick" if qv else "thorough", n=n, fam=fam, mem=mem_for(n, 0.5), timeout=3000,
                                    covers={"reached": "SATISFIED", "None": "SATISFIED", "Xor": "SATISFIED"},
                                    what="%s n=%d, concrete v=%d, symbolic table: top_decomposition / unateness EQUAL the cofactor-derived class and facts" % (tname, n, v)))
    for n in (9, 10, 11, 12):
        for v in range(n):
            qv = n <= 10 or (n == 11 and v in (8, 10)) or (n == 12 and v in (8, 11))
            out.append(spec("verif_c06", "c06.rs", "c06_lemma_h_v", "c06_lemma_h_%d_v%d" % (n, v), [n, T(n), v], T(n) + 2,
                            tier="quick" if qv else "thorough", n=n, fam="harness-oracle", mem=mem_for(n, 0.5), timeout=3000,
                            what="lemma H n=%d, concrete v=%d" % (n, v)))
    return out


# ------------------------------------------------------------------------------------------------
# C09
# ------------------------------------------------------------------------------------------------

def hex_width(n):
    per = 16 if n >= 6 else (1 if n <= 2 else 1 << (n - 2))
    return per * T(n)


def c09_parse_specs(kinds=("s", "d"), nmax_quick=6, nmax=7):
    out = []
    for kind in kinds:
        tname = "LutN" if kind == "s" else "Lut"
        for n in range(0, nmax + 1):
            fam = fam_name(kind, n)
            w = hex_width(n)
            q = n <= nmax_quick and (kind == "s" or n in (0, 1, 2, 4, 6))
            out.append(spec("verif_c09", "c09.rs", "c09_parse", "c09_parse_%s" % fam, [fam, w], max(w, T(n)) + 2,
                            tier="quick" if q else "thorough", n=n, fam=fam, mem=2 if n >= 6 else 1,
                            timeout=1800 if n <= 6 else 3600, optional=(n >= 7),
                            covers={"reached": "SATISFIED", "accepted": "SATISFIED",
                                    "rejected: digit too large": "SATISFIED" if n < 2 else "UNSAT",
                                    "rejected: non-hex character": "SATISFIED", "leading plus": "SATISFIED"},
                            what="from_hex_string on %s n=%d: all %d bytes of the input are symbolic ASCII; Ok iff every byte is a hex digit (lower case must be accepted, upper case may be) and the value fits 2^n bits, the table is exactly the denoted one and well-formed; everything else is Err" % (tname, n, w)))
    return out


def c09(tier, seed):
    # _c09_order_specs() (multi-word print order with small words) was measured infeasible: core::fmt padding
    # alone exhausts 30 GB / 50 min at n = 7 even when every word is < 16; printing for n >= 6 stays outside the claim
    out = c09_parse_specs()
    for kind in ("s", "d"):
        tname = "LutN" if kind == "s" else "Lut"
        for n in range(0, 9):
            fam = fam_name(kind, n)
            w = hex_width(n)
            q = (kind == "s" and n <= 6) or (kind == "d" and n in (0, 3, 6))
            out.append(spec("verif_c09", "c09.rs", "c09_wrong_len", "c09_wrong_len_%s" % fam, [fam, w], max(w + 2, T(n)) + 2,
                            tier="quick" if q else "thorough", n=n, fam=fam, timeout=3000, optional=(n >= 7), mem=6 if n >= 7 else 1,
                            mem_limit_gb=30 if n >= 7 else 14,
                            covers={"reached": "SATISFIED", "empty string": "SATISFIED", "one too long": "SATISFIED"},
                            what="from_hex_string on %s n=%d: every length in 0..=%d other than %d with symbolic ASCII content is Err (no panic)" % (tname, n, w + 2, w)))
            if w >= 2:
                out.append(spec("verif_c09", "c09.rs", "c09_non_ascii", "c09_non_ascii_%s" % fam, [fam, w], max(w, T(n)) + 2,
                                tier="quick" if (kind == "s" and n <= 7) or (kind == "d" and n in (3, 7)) else "thorough", n=n, fam=fam, timeout=1800, mem=2 if n >= 7 else 1,
                                optional=(n >= 8),
                                covers={"reached": "SATISFIED",
                                        "character straddles the chunk boundary": "SATISFIED" if w >= 32 else "UNSAT"},
                                what="from_hex_string on %s n=%d: a 2-byte UTF-8 character at a symbolic position in an otherwise ASCII string of the right byte length is Err and never panics (chunk slicing)" % (tname, n)))
        for n in range(0, 6):
            fam = fam_name(kind, n)
            w = hex_width(n)
            tq = "quick" if (n <= 2 and kind == "s") or (n == 2 and kind == "d") else "thorough"
            out.append(spec("verif_c09", "c09.rs", "c09_print_hex", "c09_print_hex_%s" % fam, [fam, w], 70,
                            tier=tq, n=n, fam=fam, timeout=3000, mem=3, optional=(n >= 3),
                            covers={"reached": "SATISFIED", "letter digit": "SATISFIED" if n >= 2 else "UNSAT"},
                            what="to_hex_string on %s n=%d: length is exactly %d and the digit at a symbolic position is the MSB-first nibble" % (tname, n, w)))
            # c09_roundtrip (parse(print(f)) == f) and c09_print_bin (to_bin_string) are written in c09.rs but not
            # registered: measured out of memory at 40 GB / 20+ min even for n = 0 (`{:0width$b}` and the
            # String -> &str -> from_str_radix chain on a symbolic string); the round trip follows from the
            # parser oracle (c09_parse) and the printer oracle (c09_print_hex) at the sizes where both are decided
    return out


# ------------------------------------------------------------------------------------------------
# C10
# ------------------------------------------------------------------------------------------------

def c10(tier, seed):
    out = []
    for n in range(0, 13):
        fam = fam_name("s", n)
        q = n <= 8
        tr = "quick" if q else "thorough"
        out.append(spec("verif_c10", "c10.rs", "c10_conv", "c10_conv_%s" % fam, [fam], max(8 * T(n), 128) + 3,
                        tier=tr, n=n, fam=fam, mem=mem_for(n), timeout=900 if q else 3000,
                        what="Lut%d: Lut::from(a) has %d variables and the same blocks; Lut%d::try_from is its inverse; try_from(Lut of any other size 0..13) is Err without panicking" % (n, n, n)))
        # the differential operator harnesses carry two copies of every table and a symbolic selector: measured out of
        # memory (30 GB, 25 min each) at n >= 10, so they stop at n = 9 (optional there); the kernels shared by both
        # types are decided up to n = 12 by C01 / C03 / C06
        for (lo, hi, label) in (((0, 12, "logic"), (30, 43, "forms"), (20, 22, "flipswap"), (22, 27, "cofactors")) if n <= 9 else ()):
            out.append(spec("verif_c10", "c10.rs", "c10_ops", "c10_ops_%s_%s" % (label, fam), [fam, lo, hi], 8 * T(n) + 2,
                            tier=tr, n=n, fam=fam, mem=mem_for(n, 2.5), timeout=1200 if q else 3600, optional=(n >= 9),
                            mem_limit_gb=14 if n <= 8 else 30,
                            covers={"reached": "SATISFIED", "last arm": "SATISFIED"},
                            what="Lut%d vs Lut [%s]: not/and/or/xor (named + operator forms), value, cmp/==, set_value | flip, swap | swap_adjacent, cofactors, from_cofactors, top_decomposition, unateness give corresponding results on the same symbolic function and arguments" % (n, label)))
        out.append(spec("verif_c10", "c10.rs", "c10_ctors", "c10_ctors_%s" % fam, [fam], max(8 * T(n), n, 8) + 2,
                        tier=tr, n=n, fam=fam, mem=mem_for(n), timeout=900 if q else 3000, optional=(n >= 11),
                        covers={"reached": "SATISFIED", "symmetric/equals/threshold with a large parameter": "SATISFIED"},
                        what="Lut%d vs Lut: every named constructor with its parameter over all usize, and the first iterator items, coincide" % n))
        if n <= 5:
            out.append(spec("verif_c10", "c10.rs", "c10_strings", "c10_strings_%s" % fam, [fam, hex_width(n)], max(hex_width(n), 8) + 2,
                            tier="quick" if n in (0, 1, 3) else "thorough", n=n, fam=fam, timeout=1800,
                            covers={"reached": "SATISFIED", "accepted": "SATISFIED"},
                            what="Lut%d vs Lut: from_hex_string accepts the same symbolic %d-byte strings and yields corresponding tables" % (n, hex_width(n))))
    for n in range(0, 5):
        fam = "s%d" % n
        out.append(spec("verif_c04", "c04.rs", "c04_diff", "c04_diff_%s" % fam, [fam], 36,
                        tier="quick" if n <= 2 else "thorough", n=n, fam=fam, mem=3 if n >= 3 else 1, timeout=3600,
                        optional=(n == 4),
                        covers={"reached": "SATISFIED", "npn arm": "SATISFIED"},
                        what="Lut%d vs Lut: p/n/npn_canonization return the same representative, permutation and mask on the same symbolic function" % n))
    for (lut, ty, n) in (("Lut3", "u8", 3), ("Lut4", "u16", 4), ("Lut5", "u32", 5), ("Lut6", "u64", 6)):
        out.append(spec("verif_c10", "c10.rs", "c10_int", "c10_int_%s" % ty, [lut, ty, n], 10,
                        tier="quick", n=n, fam=lut,
                        what="%s <-> %s: bit m of the integer is f(m) for all integers; both round trips are the identity" % (lut, ty)))
    return out


# ------------------------------------------------------------------------------------------------
# C12
# ------------------------------------------------------------------------------------------------

def c12(tier, seed):
    out = []
    out.append(plain("verif_c12", "c12.rs", "c12_value_and", n=32, fam="Cube",
                     covers={"reached": "SATISFIED", "contradiction created by the conjunction": "SATISFIED", "conjunction satisfied": "SATISFIED"},
                     what="Cube over all 32 variables: value(m) by definition; a & b (4 reference forms) denotes the conjunction; a contradictory result is exactly the canonical zero cube; is_zero/is_one/is_constant"))
    out.append(plain("verif_c12", "c12.rs", "c12_eq_semantic", n=32, fam="Cube", unwind=None,
                     covers={"reached": "SATISFIED", "equal although built from different masks (both zero)": "SATISFIED", "different": "SATISFIED"},
                     what="Cube equality is semantic: a == b implies equal values on a symbolic assignment; a != b implies one of 4 Skolem assignments distinguishes them"))
    out.append(plain("verif_c12", "c12.rs", "c12_implies_intersects", n=32, fam="Cube",
                     covers={"reached": "SATISFIED", "proper implication": "SATISFIED", "overlap without implication": "SATISFIED", "zero implies everything": "SATISFIED"},
                     what="implies / intersects over all 32 variables: sound for a symbolic assignment and complete by Skolem witnesses"))
    out.append(plain("verif_c12", "c12.rs", "c12_constructors_counts", n=32, fam="Cube", unwind=5,
                     covers={"reached": "SATISFIED", "31-variable minterm": "SATISFIED", "0-variable minterm": "SATISFIED", "contradictory from_vars": "SATISFIED"},
                     what="minterm(n<=31, x), nth_var, nth_var_inv, one, zero, from_vars (<=3+3 symbolic literals) against from_mask; num_lits / num_gates"))
    out.append(plain("verif_c12", "c12.rs", "c12_minterm32", n=32, fam="Cube",
                     what="minterm(32, x).value(m) iff m == x (all 32 variables)"))
    for n in range(0, 6):
        out.append(spec("verif_c12", "c12.rs", "c12_all", "c12_all_%d" % n, [n], (1 << (2 * n)) + 3,
                        tier="quick" if n <= 3 else "thorough", n=n, fam="Cube", timeout=3000, mem=2 if n >= 4 else 1,
                        optional=(n >= 5),
                        covers={"reached": "SATISFIED", "cube inside the enumeration": "SATISFIED", "cube outside the enumeration": "SATISFIED"},
                        what="Cube::all(%d): a symbolic cube occurs exactly once if it is a non-zero cube over variables < n and never otherwise; 3^n items, none zero" % n))
    for n in range(0, 7):
        fam = "d%d" % n
        out.append(spec("verif_c12", "c12.rs", "c12_implies_lut", "c12_implies_lut_%d" % n, [fam], (1 << n) + 3,
                        tier="quick" if n <= 4 else "thorough", n=n, fam="Cube,Lut", timeout=3000, mem=2 if n >= 5 else 1,
                        covers={"reached": "SATISFIED", "non-zero implicant": "SATISFIED", "not an implicant": "SATISFIED"},
                        what="implies_lut on a symbolic %d-variable function and a symbolic cube over 32 variables: true implies implicant (symbolic assignment), false implies the definitional scan finds a counterexample" % n))
    return out


# ------------------------------------------------------------------------------------------------
# C13
# ------------------------------------------------------------------------------------------------

def c13(tier, seed):
    out = []
    out.append(plain("verif_c13", "c13.rs", "c13_ecube_value_ops", n=32, fam="Ecube", unwind=34,
                     covers={"reached": "SATISFIED", "values differ": "SATISFIED", "all 32 variables": "SATISFIED"},
                     what="Ecube over all 32 variables: value(m) == parity(vars & m) ^ xnor; ^ (4 forms) and ! (2 forms) denote XOR / complement; is_zero/is_one/num_lits/num_gates"))
    out.append(plain("verif_c13", "c13.rs", "c13_ecube_eq_semantic", n=32, fam="Ecube", unwind=34,
                     covers={"reached": "SATISFIED", "equal": "SATISFIED", "differ by a variable": "SATISFIED"},
                     what="Ecube equality is semantic: == implies equal value on a symbolic assignment, != implies a Skolem assignment distinguishes"))
    out.append(plain("verif_c13", "c13.rs", "c13_ecube_constructors", n=32, fam="Ecube", unwind=34,
                     covers={"reached": "SATISFIED", "repeated variable in from_vars": "SATISFIED"},
                     what="Ecube nth_var / nth_var_inv / one / zero / from_vars(<=3 symbolic variables, xnor) by definition"))
    for n in range(0, 5):
        out.append(spec("verif_c13", "c13.rs", "c13_ecube_all", "c13_ecube_all_%d" % n, [n], (1 << (n + 1)) + 3,
                        tier="quick" if n <= 2 else "thorough", n=n, fam="Ecube", timeout=3000, mem=3 if n >= 3 else 1,
                        optional=(n >= 3),
                        covers={"reached": "SATISFIED", "term inside the enumeration": "SATISFIED", "term outside the enumeration": "SATISFIED"},
                        what="Ecube::all(%d): a symbolic term (over variables < 6) occurs exactly once iff its variables are < n; exactly 2^(n+1) items" % n))
    kinds = "01v!zo"   # z: from_cubes([Ecube::zero()]), o: from_cubes([Ecube::one(), Ecube::zero()])
    pats_q = [(6, "v!v1"), (6, "vv!!"), (5, "!v0v"), (4, "vvvv"), (4, "0!v0"), (3, "1v!0"), (2, "0000"), (2, "!!vv"), (1, "v!01"), (0, "0110"),
              (3, "zv!0"), (4, "0zov"), (2, "zz00")]
    pats_t = [(7, "v!v!"), (8, "vv!1"), (6, "0v!0"), (5, "!!!!"), (3, "v0v0"), (0, "0000"), (0, "1111")]
    for (n, pat) in pats_q + pats_t:
        ks = [kinds.index(c) for c in pat]
        q = (n, pat) in pats_q
        name = "c13_soes_n%d_%s" % (n, pat.replace("!", "i"))
        can_true = any(k not in (0, 4) for k in ks)
        can_false = all(k not in (1, 5) for k in ks) and not (n >= 1 and any(ks[a] == 2 and ks[b] == 3 for a in range(4) for b in range(4)) and False)
        out.append(spec("verif_c13", "c13.rs", "c13_soes", name, [n] + ks,
                        max((1 << n) + 3, 36 if any(k >= 4 for k in ks) else 8), tier="quick" if q else "thorough", n=n, fam="Soes", timeout=2400,
                        mem=2 if n >= 6 else 1,
                        covers={"reached": "SATISFIED", "evaluates to true": "SATISFIED" if can_true else "UNSAT",
                                "evaluates to false": "SATISFIED" if can_false else "UNSAT"},
                        what="Soes n=%d, operands of kinds %s (0 zero, 1 one, v = x_i, ! = !x_i with symbolic i): value == OR of terms, | (4 reference forms) denotes OR, Lut::from tabulates the same function (well-formed), is_zero/is_one only for the respective constant" % (n, pat)))
    for n in (3, 5):
        out.append(spec("verif_c13", "c13.rs", "c13_soes_general", "c13_soes_general_%d" % n, [n], 36,
                        tier="thorough", n=n, fam="Soes", timeout=3000, mem=8, mem_limit_gb=30, optional=True,
                        covers={"reached": "SATISFIED", "multi-variable term": "SATISFIED"},
                        what="Soes::from_cubes with ONE general symbolic term over n=%d variables: value, tabulation, is_zero/is_one" % n))
    return out


# ------------------------------------------------------------------------------------------------
# C15
# ------------------------------------------------------------------------------------------------

def c15(tier, seed):
    out = []
    kinds = "01v!"
    pats_q = [(6, "v!v"), (5, "vv1"), (4, "!v0"), (3, "1!v"), (2, "00v"), (2, "vv!"), (1, "v!1"), (0, "011"), (0, "110"), (1, "11v"), (3, "11!")]
    pats_t = [(7, "v!v"), (8, "!!v"), (6, "111"), (4, "vvv"), (3, "0v0"), (0, "000")]
    for (n, pat) in pats_q + pats_t:
        ks = [kinds.index(c) for c in pat]
        q = (n, pat) in pats_q
        name = "c15_ops_n%d_%s" % (n, pat.replace("!", "i"))
        lits = [k for k in ks if k >= 2]
        can_vary = len(lits) > 0 and n >= 1
        base = True  # value of !(e0^e1)^e2 with all literals... decided by the solver; covers below only when both polarities are possible
        covers = {"reached": "SATISFIED"}
        if can_vary and n >= 2:
            covers["evaluates to true"] = "SATISFIED"
            covers["evaluates to false"] = "SATISFIED"
        out.append(spec("verif_c15", "c15.rs", "c15_ops", name, [n] + ks, max((1 << n) + 3, 8),
                        tier="quick" if q else "thorough", n=n, fam="Esop", timeout=2400, mem=2 if n >= 6 else 1,
                        covers=covers,
                        what="Esop n=%d, operands of kinds %s (0 zero, 1 one, v = x_i, ! = !x_i, symbolic i): ^ (4 forms) and ! (2 forms) denote XOR / complement, Lut::from tabulates the same function, is_zero/is_one only for the respective constant" % (n, pat)))
    for n in (0, 1, 2, 3):
        fam = "d%d" % n
        for val in (False, True):
            if n == 3 and val:
                continue
            out.append(spec("verif_c15", "c15.rs", "c15_conv", "c15_conv_%d%s" % (n, "_value" if val else ""),
                            [fam, "true" if val else "false"], max(8, (1 << n)) + 3,
                            tier="quick" if n <= 1 or (n == 2 and not val) else "thorough", n=n, fam="Lut,Esop", timeout=3600,
                            mem={0: 1, 1: 1, 2: 6, 3: 30}[n], mem_limit_gb=14 if n <= 1 else 44, optional=(n == 3),
                            covers={"reached": "SATISFIED", "monomial present": "SATISFIED", "monomial absent": "SATISFIED"},
                            what="Esop::from(&Lut) n=%d, symbolic f and symbolic monomial S: the cube of S occurs exactly ANF(f)[S] times, all cubes are all-positive over variables < n%s" % (n, "; value(m) == f(m); is_zero/is_one only for constants" if val else "")))
    for n in (0, 1, 2):
        fam = "d%d" % n
        out.append(spec("verif_c15", "c15.rs", "c15_conv_back", "c15_conv_back_%d" % n, [fam], max(8, (1 << n)) + 3,
                        tier="quick" if n <= 1 else "thorough", n=n, fam="Lut,Esop", timeout=3600,
                        mem={0: 1, 1: 2, 2: 12}[n], mem_limit_gb=14 if n <= 1 else 44, optional=(n == 2),
                        what="Lut::from(&Esop::from(&f)) == f for symbolic f, n=%d" % n))
    return out


# ------------------------------------------------------------------------------------------------
# C19
# ------------------------------------------------------------------------------------------------

def c19(tier, seed):
    out = []
    quick_dyn = sorted(set([0, 5, 6, 7, 8] + [[1, 2, 3, 4][seed % 4]]))
    for kind in ("s", "d"):
        tname = "LutN" if kind == "s" else "Lut"
        for n in range(0, 13):
            q = True if kind == "s" else (n in quick_dyn)
            fam = fam_name(kind, n)
            claims = {"constant one reachable": "SATISFIED", "constant zero reachable": "SATISFIED",
                      "two calls can differ": "SATISFIED"}
            if T(n) >= 2:
                claims["first and last word can differ"] = "SATISFIED"
                claims["last word can be non-zero"] = "SATISFIED"
            s = spec("verif_c19", "c19.rs", "c19_random", "c19_random_%s" % fam, [fam], max(8 * T(n), 80) + 3,
                     tier="quick" if q else "thorough", n=n, fam=fam, mem=mem_for(n), timeout=1800,
                     features=["rand"], covers={"reached": "SATISFIED"}, claim_covers=claims,
                     confirm_inst="c19_confirm!(c19_confirm_%s, %s, 0);" % (fam, fam), confirm_fn="c19_confirm_%s" % fam,
                     what="random() on %s n=%d with the RNG replaced by a stub returning arbitrary u64 values: for EVERY draw sequence the table is well-formed and each call consumes fresh draws; reachability claims: constant one / constant zero / differing words / differing calls" % (tname, n))
            out.append(s)
    for fam, n in (("s0", 0), ("s3", 3), ("s5", 5), ("d2", 2), ("d5", 5), ("s7", 7)):
        calls = 300 if T(n) == 1 else 140
        out.append(spec("verif_c19", "c19.rs", "c19_history", "c19_history_%s" % fam, [fam, calls], max(calls, 80) + 3,
                        tier="quick" if fam[0] == "s" else "thorough", n=n, fam=fam, timeout=3000, mem=2, features=["rand"],
                        what="history of %d consecutive random() calls on %s n=%d with symbolic RNG outputs: every table is well-formed (state carried between calls cannot break it)" % (calls, "LutN" if fam[0] == "s" else "Lut", n)))
    return out


# ------------------------------------------------------------------------------------------------
# C04 / C05
# ------------------------------------------------------------------------------------------------

def c04_e2e(prop):
    out = []
    for kind in ("s", "d"):
        tname = "LutN" if kind == "s" else "Lut"
        for grp, nmax in (("p", 4), ("n", 4), ("npn", 3)):
            for n in range(0, nmax + 1):
                fam = fam_name(kind, n)
                heavy = (n == nmax)
                q = ((kind == "s") or n in (0, 1, 2)) and not (grp == "npn" and n == 3)
                out.append(spec("verif_c04", "c04.rs", "c04_%s" % grp, "c04_%s_%s" % (grp, fam), [fam], 36,
                                tier="quick" if q else "thorough", n=n, fam=fam, mem=3 if heavy else 1,
                                timeout=3000, role="e2e_%s" % grp,
                                covers={"reached": "SATISFIED", "input already canonical": "SATISFIED",
                                        "input not canonical": "SATISFIED" if (n >= 1 or grp != "p") and not (grp == "p" and n < 2) else "UNSAT"},
                                what="%s_canonization on %s n=%d, symbolic f: terminates; result <= g.f for a symbolic group element g (orbit lower bound); result is a member of the orbit (witness by concrete enumeration of the group, independent of the certificate); returned (perm, mask) is a valid certificate mapping f to the result, also when f is already canonical" % (grp, tname, n)))
    return out


STUB_CMP = "#[kani::stub(crate::operations::cmp, crate::verif_k04::s_cmp)]"


def c04_stubbed(prop):
    """Quick-tier end-to-end harnesses at the largest sizes with operations::cmp replaced by the lean
    stand-in (kernel level: stubbing names a private function) + the equivalence lemma."""
    out = []
    for (grp, kind, n) in (("npn", "s", 3), ("npn", "d", 3), ("p", "d", 4), ("n", "d", 4)):
        fam = fam_name(kind, n)
        s = spec("verif_k04", "c04.rs+k04.rs", "c04_%s" % grp, "c04_%s_stub_%s" % (grp, fam), [fam], 36,
                 tier="quick", n=n, fam=fam, mem=3, timeout=3000, level="kernel", stubbing=True, role="e2e_%s" % grp,
                 covers={"reached": "SATISFIED", "input already canonical": "SATISFIED", "input not canonical": "SATISFIED"},
                 what="%s_canonization on %s n=%d with operations::cmp replaced by the index-loop stand-in s_cmp (equivalence lemma k04_cmp_equiv): orbit lower bound, membership, certificate (see the unstubbed harness of the same name in the thorough tier)" % (grp, "LutN" if kind == "s" else "Lut", n))
        s["inst"] = "c04_%s!(%s c04_%s_stub_%s, %s, 36);" % (grp, STUB_CMP, grp, fam, fam)
        out.append(s)
    # L0 dispatch lemma (kernel level): what the public entry points really pass to the walk and the decoder
    for grp, gname in ((0, "p"), (1, "n"), (2, "npn")):
        for n in range(2, 9):
            for kind in ("s", "d"):
                if kind == "d" and n not in (6, 7):
                    continue
                fam = fam_name(kind, n)
                if grp != 1 and n >= 7:
                    # the swap sequence for n >= 7 comes from generate_swaps (thousands of Vec<Vec<u8>> operations):
                    # measured > 3600 s under CBMC even though everything is concrete; that the entry points pass
                    # generate_swaps(n, true) for n = 7, 8 therefore stays a stated (unchecked) step, L2 covers the
                    # sequence itself
                    continue
                swaps_len = {2: 2, 3: 6, 4: 24, 5: 120, 6: 720, 7: 5040, 8: 40320}[n]
                flips_len = 1 << n
                u = max(flips_len if grp == 1 else max(swaps_len, flips_len), 8) + 3
                heavy = grp != 1 and n >= 6
                out.append(spec("verif_k04", "c04.rs+k04.rs", "k04_dispatch", "k04_dispatch_%s_%s" % (gname, fam), [fam, grp], u,
                                tier="thorough" if heavy else "quick", n=n, fam=fam, level="kernel", stubbing=True,
                                mem=(8 if n >= 7 else 2) if heavy else 1, mem_limit_gb=30 if heavy else 14, timeout=3600, optional=(heavy and n >= 7),
                                role="dispatch_%s" % gname,
                                what="L0 dispatch lemma %s n=%d on %s: the public entry point passes the SAME sequence(s) to *_ind and *_res, and they are %s" % (
                                    gname, n, "LutN" if kind == "s" else "Lut",
                                    "closed, in range and covering (checked on the recorded sequence)" if (grp == 1 or n <= 6) else "the flips closed/in range/covering and the swaps equal to generate_swaps(n, true) (coverage by L2)")))
    # L1 walk lemmas (kernel level)
    for (n, q) in ((2, True), (5, True), (6, True), (7, True), (8, False)):
        t = T(n)
        u = max(8 * t, n) + 3
        tr = "quick" if q else "thorough"
        for maxlen in ((2,) if n < 8 else (1, 2)):
            tr2 = tr
            sfx = "" if maxlen == 2 else "_len1"
            out.append(spec("verif_k04", "c04.rs+k04.rs", "k04_walk_p", "k04_walk_p_%d%s" % (n, sfx), [n, t, maxlen], u,
                            tier=tr2, n=n, fam="kernel", level="kernel", mem=mem_for(n, 2), timeout=3000, role="walk_p",
                            optional=(n >= 8),
                            covers={"reached": "SATISFIED", "no candidate improves": "SATISFIED",
                                    "last candidate is the best": "SATISFIED" if (n >= 3 or maxlen == 1) else "UNSAT"},
                            what="L1 walk lemma P n=%d: p_canonization_ind over an ARBITRARY swap sequence of length <= %d on a symbolic table: final table, best = min(input, candidates), index of the first strict improvement; p_canonization_res decodes it into a permutation mapping the input to best (pointwise on a symbolic assignment), including 'no candidate improves'" % (n, maxlen)))
            out.append(spec("verif_k04", "c04.rs+k04.rs", "k04_walk_n", "k04_walk_n_%d%s" % (n, sfx), [n, t, maxlen], u,
                            tier=tr2, n=n, fam="kernel", level="kernel", mem=mem_for(n, 2), timeout=3000, role="walk_n",
                            optional=(n >= 8),
                            covers={"reached": "SATISFIED", "no candidate improves": "SATISFIED",
                                    "complemented candidate after the last flip is the best": "SATISFIED"},
                            what="L1 walk lemma N n=%d: n_canonization_ind / n_canonization_res over an ARBITRARY flip sequence of length <= %d (both output polarities after each flip)" % (n, maxlen)))
        for (sl, fl_, closed) in ((1, 1, False), (1, 2, False), (2, 2, True)):
            out.append(spec("verif_k04", "c04.rs+k04.rs", "k04_walk_npn", "k04_walk_npn_%d_%dx%d%s" % (n, sl, fl_, "c" if closed else ""),
                            [n, t, sl, fl_, "true" if closed else "false"], u,
                            tier=tr if not (n >= 7 and closed) else "thorough", n=n, fam="kernel", level="kernel", mem=mem_for(n, 2), timeout=3600, role="walk_npn",
                            optional=(n >= 8),
                            covers={"reached": "SATISFIED", "no candidate improves": "SATISFIED",
                                    "a late candidate is the best": "SATISFIED" if sl * fl_ >= 2 else "UNSAT"},
                            what="L1 walk lemma NPN n=%d, %d swap(s) x %d flip(s)%s with symbolic contents on a symbolic table: final table, best = min(input, candidates), index, and npn_canonization_res decodes it into (perm, mask) mapping the input to best (pointwise)" % (n, sl, fl_, " (closed cycle [v,v])" if closed else "")))
    # one concrete step on tables of 3+ words (quick-tier stand-in for the symbolic-step lemma at n >= 8)
    for (n, grp, s0) in ((8, 0, 0), (8, 0, 6), (8, 1, 1), (8, 1, 7), (9, 0, 7), (9, 1, 8)):
        t = T(n)
        gname = "p" if grp == 0 else "n"
        out.append(spec("verif_k04", "c04.rs+k04.rs", "k04_walk_fixed", "k04_walk_fixed_%s_%d_%d" % (gname, n, s0), [n, t, grp, s0], max(8 * t, n) + 3,
                        tier="quick", n=n, fam="kernel", level="kernel", mem=mem_for(n, 2), timeout=3000, role="walk_%s" % gname,
                        covers={"reached": "SATISFIED", ("P: no candidate improves" if grp == 0 else "N: no candidate improves"): "SATISFIED",
                                ("P: the candidate improves" if grp == 0 else "N: the uncomplemented candidate improves"): "SATISFIED"},
                        what="L1 walk lemma %s n=%d with the CONCRETE one-step sequence [%d] on a symbolic %d-word table: final table, best = min(input, candidates) in the library order, index, decoded certificate pointwise" % (gname.upper(), n, s0, t)))
    for t in (1, 2, 4):
        out.append(spec("verif_k04", "c04.rs+k04.rs", "k04_cmp_equiv", "k04_cmp_equiv_%d" % t, [t], 8 * t + 3,
                        tier="quick", n=None, fam="kernel", level="kernel",
                        covers={"reached": "SATISFIED", "less": "SATISFIED"},
                        what="equivalence lemma: operations::cmp(a, b) == s_cmp(a, b) for arbitrary %d-word slices" % t))
    return out


def c04(tier, seed):
    out = c04_e2e("C04") + c04_stubbed("C04")
    for n in range(0, 4):
        fam = "s%d" % n
        out.append(spec("verif_c04", "c04.rs", "c04_idem", "c04_idem_%s" % fam, [fam], 36,
                        tier="quick" if n <= 2 else "thorough", n=n, fam=fam, mem=3 if n == 3 else 1, timeout=3000,
                        optional=(n == 3),
                        covers={"reached": "SATISFIED", "npn arm": "SATISFIED"},
                        what="LutN n=%d: canonizing a representative returns it unchanged and every function of the orbit (symbolic group element) gets the same representative, for P, N and NPN" % n))
    return out


def c04_extra(scratch, tier, seed, log):
    import l2_sequences
    recs = l2_sequences.run_l2(scratch, tier, seed, log)
    for r in recs:
        if r.get("verdict") == "violation":
            n = r.get("n", 4)
            kind = 0 if " swaps " in r["harness"] else 1
            count = {0: 1, 1: 2, 2: 4, 3: 8, 4: 8, 5: 6, 6: 4, 7: 2, 8: 1}.get(n, 1)
            fn = "c04_confirm_%d_%d" % (n, kind)
            r["confirm"] = {"module": "verif_c04", "source": "c04.rs", "fn": fn,
                            "inst": "c04_confirm!(%s, %d, %d, %d, 0);" % (fn, n, kind, count)}
    return recs


def c05(tier, seed):
    out = c04_e2e("C05") + c04_stubbed("C05")
    return out


def _c09_order_specs():
    out = []
    for fam, n in (("s7", 7), ("d7", 7), ("s8", 8)):
        for hexa in (True, False):
            out.append(spec("verif_c09", "c09.rs", "c09_print_order", "c09_print_order_%s_%s" % ("hex" if hexa else "bin", fam),
                            [fam, "true" if hexa else "false"], 140,
                            tier="quick", n=n, fam=fam, mem=4, mem_limit_gb=30, timeout=3000,
                            covers={"reached": "SATISFIED", "first and last word differ": "SATISFIED"},
                            what="%s on %s n=%d with every word a small symbolic value (< %d): fixed width, the digit of word k sits at the end of chunk T-1-k (most significant word first), everything else is '0'" % (
                                "to_hex_string" if hexa else "to_bin_string", "LutN" if fam[0] == "s" else "Lut", n, 16 if hexa else 2)))
    return out


PROPS = {
    "C04": c04,
    "C05": c05,
    "C19": c19,
    "C15": c15,
    "C13": c13,
    "C12": c12,
    "C10": c10,
    "C09": c09,
    "C06": c06,
    "C02": c02,
    "C17": c17,
    "C08": c08,
    "C11": c11,
    "C01": c01,
    "C03": c03,
}

# property -> function(scratch, tier, seed, log) -> list of extra (non-Kani) obligation records
EXTRA = {"C17": c17_extra, "C04": c04_extra, "C05": c04_extra}


# what lies outside the claim of each check (reported in the evidence next to the explored bounds)
OUTSIDE = {
    "C01": "n = 13, 14 for the dynamic Lut; n > 12; allocation failure",
    "C02": "composition of the per-producer inductive steps over finite histories (pen-and-paper); n > 12; producers decided elsewhere: random() (C19), Lut::from(&Soes/&Esop) (C13/C15), canonization results beyond n = 3",
    "C03": "n = 13, 14 for the dynamic Lut; symbolic-index queries for swap at n >= 11 and everything at n = 12 are optional (the concrete-index harnesses cover those sizes)",
    "C04": "end-to-end behaviour for n >= 5 (NPN n >= 4) is covered only through the lemmas L0 (dispatch), L1 (walk, short arbitrary sequences), L2 (sequence coverage) and kernel exactness (C01, C03, C08), whose composition is a stated argument; n >= 9 entirely",
    "C05": "same composition caveat as C04; n >= 9 entirely",
    "C06": "n > 12; symbolic-v queries at n >= 11 (concrete v used instead)",
    "C08": "lexicographic order of hex strings beyond n = 3 (follows from C09's fixed-width MSB-first rendering where that is decided); complete iterator runs for n >= 4 (2^(2^n) items) -- replaced by the arbitrary-state successor lemma",
    "C09": "to_bin_string, Display/LowerHex/Binary wrappers, the explicit parse(print(f)) round trip, printing for n >= 6 (word order of multi-word tables included), parsing for n >= 8",
    "C10": "bdd_complexity pairs (C07 not applicable); canonization triples beyond n = 3 (4 thorough); differential operator harnesses at n >= 9 are optional under caps",
    "C11": "n = 13, 14 for the dynamic Lut",
    "C12": "Cube::all(n) for n >= 6, implies_lut for n >= 7; pos_vars/neg_vars iterators and Display (C16 not applicable)",
    "C13": "Soes with several multi-variable terms (one general from_cubes term only in thorough, capped); Ecube::all(n) for n >= 5",
    "C15": "Esop::from(&Lut) for n >= 4 (n = 3 only the monomial count, capped); operators on Esops whose cubes are not constructor-built literals/constants",
    "C17": "n > 8; indices beyond n + 70 other than usize::MAX; bdd_complexity on same-size lists",
    "C19": "fairness of thread_rng itself, the 2^-200 statistical bound, multi-threaded schedules; any RNG API other than thread_rng().next_u64() (the stub would not compile: reported, never an alarm)",
}


def harnesses(prop, tier, seed=0):
    allh = PROPS[prop](tier, seed)
    if tier == "quick":
        return [h for h in allh if h["tier"] == "quick"]
    return allh
