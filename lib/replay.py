"""Concrete playback extraction and native replay (DESIGN.md 2.4).

A counterexample found by Kani is printed as a unit test (`--concrete-playback=print`).  We keep its
concrete values, and run the same harness function **natively** -- compiled by the ordinary rustc
against the real sources through the mirror crate, with /verif/shims/kani standing in for `kani::any()` --
in the dev profile and in the release profile.  Only what reproduces natively is reported.
"""
import os
import re
import shutil
import subprocess

import mirror

PLAYBACK_RE = re.compile(
    r"Concrete playback unit test for `([^`]+)`:\n```\n(.*?)\n```", re.S)


def extract_playbacks(log):
    """Return list of dicts {harness, check_kind, check_desc, vals_text, test_name}."""
    out = []
    for m in PLAYBACK_RE.finditer(log):
        harness, body = m.group(1), m.group(2)
        cm = re.search(r"/// Check for `(\w+)`: \"(.*)\"", body)
        vm = re.search(r"let concrete_vals: Vec<Vec<u8>> = (vec!\[.*?\n    \]);", body, re.S)
        if not vm:
            vm = re.search(r"let concrete_vals: Vec<Vec<u8>> = (vec!\[\s*\]);", body, re.S)
        nm = re.search(r"fn (kani_concrete_playback_\w+)\(", body)
        out.append({
            "harness": harness,
            "check_kind": cm.group(1) if cm else "",
            "check_desc": cm.group(2) if cm else "",
            "vals_text": vm.group(1) if vm else "vec![]",
            "test_name": nm.group(1) if nm else "",
            "body": body,
        })
    return out


def write_replay_file(path, prop, spec, pb):
    os.makedirs(os.path.dirname(path), exist_ok=True)
    with open(path, "w") as f:
        f.write("// VERIF-REPLAY property=%s harness=%s module=%s source=%s cfg=%s kind=%s features=%s\n" % (
            prop, spec["name"], spec["module"], spec["source"], spec.get("cfg", "dev"),
            spec.get("kind", "holds"), ",".join(spec.get("features", []))))
        f.write("// VERIF-CHECK %s: %s\n" % (pb["check_kind"], pb["check_desc"]))
        f.write("// VERIF-INST %s\n" % spec["inst"])
        f.write("// VERIF-VALS-BEGIN\n")
        f.write(pb["vals_text"] + "\n")
        f.write("// VERIF-VALS-END\n")
        f.write("// Counterexample emitted by Kani (--concrete-playback=print):\n")
        for line in pb["body"].splitlines():
            f.write("// " + line + "\n")


def read_replay_file(path):
    with open(path) as f:
        text = f.read()
    head = re.search(r"// VERIF-REPLAY (.*)", text).group(1)
    meta = dict(kv.split("=", 1) for kv in head.split() if "=" in kv)
    meta["inst"] = re.search(r"// VERIF-INST (.*)", text).group(1)
    meta["check"] = re.search(r"// VERIF-CHECK (.*)", text).group(1)
    meta["vals_text"] = re.search(r"// VERIF-VALS-BEGIN\n(.*?)\n// VERIF-VALS-END", text, re.S).group(1)
    meta["features"] = [x for x in meta.get("features", "").split(",") if x]
    return meta


RUNNER = """
#[cfg(test)]
mod verif_replay_runner {{
    use super::*;
    #[test]
    fn verif_replay() {{
        let variants: Vec<Vec<Vec<u8>>> = vec![{variants}];
        let mut k = 0;
        for concrete_vals in variants {{
            let r = std::panic::catch_unwind(|| kani::concrete_playback_run(concrete_vals, {fn}));
            match r {{
                Ok(()) => println!("REPLAY-OUTCOME {{}} returned covers={{:?}}", k, kani::covers_reached()),
                Err(e) => {{
                    if e.is::<kani::AssumeViolated>() {{
                        println!("REPLAY-OUTCOME {{}} assume-violated", k);
                    }} else {{
                        let msg = if let Some(s) = e.downcast_ref::<&str>() {{ s.to_string() }}
                            else if let Some(s) = e.downcast_ref::<String>() {{ s.clone() }} else {{ "?".to_string() }};
                        println!("REPLAY-OUTCOME {{}} panicked {{}}", k, msg.replace('\\n', " "));
                    }}
                }}
            }}
            k += 1;
        }}
    }}
}}
"""


def parse_vals(vals_text):
    """vec![ vec![1,2], vec![3] ] -> [[1,2],[3]] (comments ignored)."""
    body = re.sub(r"//[^\n]*", "", vals_text).strip()
    m = re.match(r"vec!\[(.*)\]\s*$", body, re.S)
    inner = m.group(1) if m else ""
    return [[int(x) for x in re.findall(r"\d+", g)] for g in re.findall(r"vec!\[([\d,\s]*)\]", inner)]


def format_vals(vals):
    return "vec![" + ", ".join("vec![" + ", ".join(str(b) for b in v) + "]" for v in vals) + "]"


def sweep_variants(vals_text, pos, values, width=8):
    base = parse_vals(vals_text)
    out = []
    for v in values:
        cur = [list(x) for x in base]
        while len(cur) <= pos:
            cur.append([0] * width)
        cur[pos] = list(int(v).to_bytes(width, "little"))
        out.append(cur)
    return out


def native_replay(scratch, harness_dir, meta, profiles=("dev", "release"), variants=None):
    """Run the harness natively on the concrete values (or on each of `variants`, a list of value lists).
    Returns dict profile -> list of (outcome, detail) per variant; plus key '_log'."""
    module = meta["module"]
    fn = meta["harness"].split("::")[-1]
    with open(os.path.join(harness_dir, "common.rs")) as f:
        common = f.read()
    src = ""
    for part in meta["source"].split("+"):
        with open(os.path.join(harness_dir, part)) as f:
            src += f.read() + "\n"
    if variants is None:
        vtext = meta["vals_text"]
    else:
        vtext = ",\n".join(format_vals(v) for v in variants)
    src += "\n" + meta["inst"] + "\n" + RUNNER.format(variants=vtext, fn=fn)
    mods = {"verif_common": common}
    for dep in meta.get("deps", []):
        with open(os.path.join(harness_dir, dep[1])) as f:
            mods[dep[0]] = f.read()
    mods[module] = src
    cdir = os.path.join(scratch, "replay_" + re.sub(r"\W+", "_", meta["harness"]))
    shutil.rmtree(cdir, ignore_errors=True)
    mirror.make_mirror(cdir, mods, native=True)
    results = {}
    for prof in profiles:
        env = dict(os.environ)
        env["CARGO_NET_OFFLINE"] = "true"
        env["RUSTFLAGS"] = "--cfg kani -A warnings"
        env["CARGO_TARGET_DIR"] = os.path.join(cdir, "target")
        env.pop("RUSTUP_TOOLCHAIN", None)
        feats = ["native_replay"] + list(meta.get("features", []))
        cmd = ["cargo", "test", "--offline", "--lib", "--features", ",".join(feats)]
        if prof == "release":
            cmd.append("--release")
        cmd += ["--", "--nocapture", "--test-threads", "1", "verif_replay_runner::verif_replay"]
        try:
            p = subprocess.run(cmd, cwd=cdir, env=env, stdout=subprocess.PIPE, stderr=subprocess.STDOUT,
                               text=True, errors="replace", timeout=1800)
            log = p.stdout
        except subprocess.TimeoutExpired as e:
            log = (e.stdout or "") + "\nTIMEOUT"
        outs = []
        for m in re.finditer(r"REPLAY-OUTCOME (\d+) (\S+)(.*)", log):
            outs.append((m.group(2), m.group(3).strip()))
        if not outs:
            outs = [("error", "\n".join(log.splitlines()[-15:]))]
        results[prof] = outs
    shutil.rmtree(cdir, ignore_errors=True)
    return results


def reproduced(kind, results):
    """Decide whether the native runs confirm the counterexample.
    kind 'holds': a panic (harness assertion, library assert, overflow) in either profile.
    kind 'must_panic': a normal return (reaching the RETURNED cover) in either profile.
    Returns list of (profile, variant index)."""
    hits = []
    for prof, outs in results.items():
        for k, (outcome, detail) in enumerate(outs):
            if kind == "must_panic":
                if outcome == "returned" and "RETURNED" in detail:
                    hits.append((prof, k))
            else:
                if outcome == "panicked":
                    hits.append((prof, k))
    return hits
