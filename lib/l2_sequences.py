"""Lemma L2 (C04/C05): the swap / flip sequences the library really uses visit every group element.

1. The mirror crate is built natively with a module that `include!`s /repo/src/canonization.rs (the
   current text of the real file, so the private tables SWAPS / FLIPS and the real generators are in
   scope) and prints the sequences used for n = 0..8 (tables for n <= 6, generators with rollback for
   n = 7, 8 -- the same choice the public entry points make).
2. Each sequence becomes SMT-LIB2 queries in which the SOLVER computes the prefix products step by step
   (one 4-bit vector per position and step) and is asked for
     cover : a permutation (polarity vector) that equals NO prefix product      -> expect unsat
     closed: the full product differs from the identity                          -> expect unsat
     range : some entry is out of range (>= n-1 for swaps, >= n for flips)       -> expect unsat
3. /usr/bin/z3 (4.8.12) and z3-new (5.1.0) must both answer unsat; cvc5 is run as a third opinion on the
   smaller instances.  Any `(error`, timeout or disagreement is inconclusive.  A `sat` answer yields the
   missing group element as the counterexample.
"""
import os
import re
import shutil
import subprocess
import time

import mirror

DUMP_MOD = """
include!("{path}");

#[cfg(test)]
mod verif_dump {{
    use super::*;
    #[test]
    fn dump() {{
        for n in 0..=6usize {{
            println!("SEQ swaps {{}} {{:?}}", n, SWAPS[n]);
            println!("SEQ flips {{}} {{:?}}", n, FLIPS[n]);
        }}
        for n in 7..={nmax}usize {{
            println!("SEQ swaps {{}} {{:?}}", n, generate_swaps(n, true));
            println!("SEQ flips {{}} {{:?}}", n, generate_gray_flips(n, true));
        }}
    }}
}}
"""


def dump_sequences(scratch, nmax=8):
    cdir = os.path.join(scratch, "l2_dump")
    shutil.rmtree(cdir, ignore_errors=True)
    src = DUMP_MOD.format(path=os.path.join(mirror.repo_src(), "canonization.rs"), nmax=nmax)
    mirror.make_mirror(cdir, {"verif_seq": src}, native=True)
    env = dict(os.environ)
    env["CARGO_NET_OFFLINE"] = "true"
    env["RUSTFLAGS"] = "-A warnings"
    env["CARGO_TARGET_DIR"] = os.path.join(cdir, "target")
    p = subprocess.run(["cargo", "test", "--offline", "--release", "--lib", "--", "--nocapture", "--test-threads", "1",
                        "verif_seq::verif_dump::dump"], cwd=cdir, env=env, stdout=subprocess.PIPE,
                       stderr=subprocess.STDOUT, text=True, errors="replace", timeout=1800)
    seqs = {}
    for m in re.finditer(r"SEQ (swaps|flips) (\d+) \[(.*?)\]", p.stdout):
        kind, n, body = m.group(1), int(m.group(2)), m.group(3)
        seqs[(kind, n)] = [int(x) for x in body.split(",") if x.strip()]
    shutil.rmtree(cdir, ignore_errors=True)
    if not seqs:
        return None, p.stdout
    return seqs, p.stdout


def bv(v, w=4):
    return "(_ bv%d %d)" % (v, w)


def smt_swaps(n, seq, query):
    """query in {'cover', 'closed', 'range'}"""
    out = ["(set-logic ALL)"]
    if query == "range":
        # some entry s with s + 1 >= n
        out.append("(declare-const k Int)")
        out.append("(assert (and (>= k 0) (< k %d)))" % max(len(seq), 0))
        terms = ["(and (= k %d) %s)" % (i, "true" if s + 1 >= n else "false") for i, s in enumerate(seq)]
        out.append("(assert (or false %s))" % " ".join(terms))
        out.append("(check-sat)")
        return "\n".join(out)
    # prefix products computed by the solver: p_k_i = element at position i after k steps
    for i in range(n):
        out.append("(define-fun p_0_%d () (_ BitVec 4) %s)" % (i, bv(i)))
    for k, s in enumerate(seq):
        for i in range(n):
            if i == s:
                src = s + 1
            elif i == s + 1:
                src = s
            else:
                src = i
            out.append("(define-fun p_%d_%d () (_ BitVec 4) p_%d_%d)" % (k + 1, i, k, src))
    if query == "closed":
        neq = " ".join("(not (= p_%d_%d %s))" % (len(seq), i, bv(i)) for i in range(n))
        out.append("(assert (or false %s))" % neq)
        out.append("(check-sat)")
        return "\n".join(out)
    # cover: a symbolic permutation t that equals no prefix product (k = 0 is the input itself)
    for i in range(n):
        out.append("(declare-const t_%d (_ BitVec 4))" % i)
        out.append("(assert (bvult t_%d %s))" % (i, bv(n)))
    if n >= 2:
        out.append("(assert (distinct %s))" % " ".join("t_%d" % i for i in range(n)))
    for k in range(len(seq) + 1):
        if n == 0:
            out.append("(assert false)")
            break
        out.append("(assert (not (and %s)))" % " ".join("(= t_%d p_%d_%d)" % (i, k, i) for i in range(n)))
    out.append("(check-sat)")
    if n:
        out.append(";MODEL (get-value (%s))" % " ".join("t_%d" % i for i in range(n)))
    return "\n".join(out)


def smt_flips(n, seq, query):
    w = max(n, 1)
    out = ["(set-logic ALL)"]
    if query == "range":
        out.append("(declare-const k Int)")
        out.append("(assert (and (>= k 0) (< k %d)))" % len(seq))
        terms = ["(and (= k %d) %s)" % (i, "true" if s >= n else "false") for i, s in enumerate(seq)]
        out.append("(assert (or false %s))" % " ".join(terms))
        out.append("(check-sat)")
        return "\n".join(out)
    out.append("(define-fun x_0 () (_ BitVec %d) %s)" % (w, bv(0, w)))
    for k, f in enumerate(seq):
        out.append("(define-fun x_%d () (_ BitVec %d) (bvxor x_%d (bvshl %s %s)))" % (k + 1, w, k, bv(1, w), bv(f, w)))
    if query == "closed":
        out.append("(assert (not (= x_%d %s)))" % (len(seq), bv(0, w)))
        out.append("(check-sat)")
        return "\n".join(out)
    out.append("(declare-const t (_ BitVec %d))" % w)
    if n == 0:
        out.append("(assert (= t %s))" % bv(0, w))
    # the walk evaluates candidates only AFTER each flip: prefix products 1..L (both output polarities each)
    for k in range(1, len(seq) + 1):
        out.append("(assert (not (= t x_%d)))" % k)
    out.append("(check-sat)")
    out.append(";MODEL (get-value (t))")
    return "\n".join(out)


SOLVERS = [
    ("z3-4.8.12", ["/usr/bin/z3", "-in", "-T:600"]),
    ("z3-5.1.0", ["z3-new", "-in", "-T:600"]),
    ("cvc5-1.0", ["cvc5", "--lang", "smt2", "--produce-models", "--tlimit=600000"]),
]


def run_solver(cmd, text, timeout=700):
    t0 = time.time()
    try:
        p = subprocess.run(cmd, input=text, stdout=subprocess.PIPE, stderr=subprocess.STDOUT, text=True, timeout=timeout)
        out = p.stdout
    except subprocess.TimeoutExpired:
        return "timeout", "", time.time() - t0
    except FileNotFoundError:
        return "missing", "", 0.0
    dt = time.time() - t0
    if "(error" in out:
        return "error", out[:300], dt
    first = out.strip().splitlines()[0].strip() if out.strip() else ""
    if first == "sat" and ";MODEL " in text:
        # ask again for the witness (get-value after an unsat answer would be an error)
        try:
            p = subprocess.run(cmd, input=text.replace(";MODEL ", ""), stdout=subprocess.PIPE, stderr=subprocess.STDOUT,
                               text=True, timeout=timeout)
            out = p.stdout
        except subprocess.TimeoutExpired:
            pass
    if first in ("sat", "unsat", "unknown"):
        return first, out[:400], dt
    return "error", out[:300], dt


def run_l2(scratch, tier, seed, log, nmax=8):
    """Returns a list of evidence records (one per query)."""
    recs = []
    seqs, raw = dump_sequences(scratch, nmax)
    if seqs is None:
        recs.append({"harness": "L2: native dump of the sequences used by the library", "status": "ERROR", "engine": "z3+cvc5",
                     "verdict": "skipped", "detail": "anchor not found: canonization.rs no longer exposes SWAPS/FLIPS/generate_* as expected: " + raw[-300:],
                     "what": "lemma L2", "covers": {}})
        return recs
    sizes = range(0, (6 if tier == "quick" else nmax) + 1)
    for kind in ("swaps", "flips"):
        for n in sizes:
            seq = seqs.get((kind, n))
            if seq is None:
                continue
            for query in ("cover", "closed", "range"):
                if query == "range" and not seq:
                    continue
                if kind == "flips" and n == 0:
                    continue
                text = smt_swaps(n, seq, query) if kind == "swaps" else smt_flips(n, seq, query)
                answers = {}
                total = 0.0
                for name, cmd in SOLVERS:
                    if name.startswith("cvc5") and (n >= 8 or (kind == "swaps" and n >= 7 and query == "cover")):
                        continue
                    if name == "z3-5.1.0" and tier == "quick" and n < 6:
                        continue
                    ans, detail, dt = run_solver(cmd, text)
                    answers[name] = (ans, detail)
                    total += dt
                vals = {a for a, _d in answers.values()}
                rec = {"harness": "L2 %s n=%d %s (len %d)" % (kind, n, query, len(seq)), "engine": "z3+cvc5",
                       "n": n, "solver_s": round(total, 2), "checks": 1, "covers": {"reached": "SATISFIED"},
                       "solvers": {k: v[0] for k, v in answers.items()},
                       "what": "sequence lemma: %s sequence used for n=%d -- %s" % (kind, n, {
                           "cover": "no group element is missed by the prefix products (solver computes the products)",
                           "closed": "the full product is the identity (closed cycle)",
                           "range": "every entry is in range"}[query])}
                if vals == {"unsat"}:
                    rec["status"] = "UNSAT"
                    rec["verdict"] = "discharged"
                elif "sat" in vals and vals <= {"sat"}:
                    rec["status"] = "SAT"
                    rec["verdict"] = "violation"
                    model = [d for a, d in answers.values() if a == "sat"][0]
                    rec["text"] = "L2 %s n=%d %s: the solver exhibits a counterexample: %s" % (kind, n, query, " ".join(model.split())[:200])
                    rec["detail"] = rec["text"]
                else:
                    rec["status"] = "INCONCLUSIVE"
                    rec["verdict"] = "inconclusive"
                    rec["detail"] = "solvers answered %s" % {k: v[0] for k, v in answers.items()}
                log("  %-44s %-13s %6.1fs  %s" % (rec["harness"][:44], rec["status"], total, rec["solvers"]))
                recs.append(rec)
    return recs
