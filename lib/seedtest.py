#!/usr/bin/env python3
"""Confirm a seeded defect and run the checks against it.

usage: seedtest.py <property-id> <label> <patch.diff> <demo.rs> [--release-demo] [--checks C02,C09] [--tier quick]

1. scratch worktree of /repo HEAD (outside /repo and /verif): the demo passes without the patch,
   the patch applies, the existing test-suite still passes with it, the demo fails with it;
2. the patch is applied to /repo's working tree, the named checks run (--no-evidence), and the patch is
   undone straight afterwards (git checkout -- .);
3. /verif/seeded/<id>_<label>/ gets patch.diff, the demo and meta.json (what was run, what each check said).
"""
import json
import os
import re
import shutil
import subprocess
import sys
import tempfile
import time

VERIF = os.path.dirname(os.path.dirname(os.path.abspath(__file__)))
REPO = "/repo"


def sh(cmd, cwd=None, timeout=3600, env=None):
    e = dict(os.environ)
    e["CARGO_NET_OFFLINE"] = "true"
    if env:
        e.update(env)
    p = subprocess.run(cmd, cwd=cwd, shell=True, stdout=subprocess.PIPE, stderr=subprocess.STDOUT, text=True,
                       errors="replace", timeout=timeout, env=e)
    return p.returncode, p.stdout


def main():
    args = sys.argv[1:]
    prop, label, patch, demo = args[0], args[1], os.path.abspath(args[2]), os.path.abspath(args[3])
    release_demo = "--release-demo" in args
    checks = [prop]
    tier = "quick"
    needs = ""
    only = ""
    for i, a in enumerate(args):
        if a == "--only":
            only = " --only " + args[i + 1]
        if a == "--checks":
            checks = args[i + 1].split(",")
        if a == "--tier":
            tier = args[i + 1]
        if a == "--needs":
            needs = args[i + 1]
    meta = {"property": prop, "label": label, "needs_to_manifest": needs, "ran": [], "checks": {}}
    wt = tempfile.mkdtemp(prefix="volute-seed.")
    os.rmdir(wt)
    rc, out = sh("git -C %s worktree add -q --detach %s HEAD" % (REPO, wt))
    assert rc == 0, out
    ok = True
    try:
        demo_name = os.path.splitext(os.path.basename(demo))[0]
        os.makedirs(os.path.join(wt, "tests"), exist_ok=True)
        shutil.copy(demo, os.path.join(wt, "tests", demo_name + ".rs"))
        rel = " --release" if release_demo else ""
        rc, out = sh("cargo test --offline%s --test %s" % (rel, demo_name), cwd=wt)
        meta["ran"].append({"cmd": "cargo test --offline%s --test %s   (unmodified tree)" % (rel, demo_name), "rc": rc})
        meta["demo_passes_without_patch"] = rc == 0
        ok &= rc == 0
        rc, out = sh("git apply %s" % patch, cwd=wt)
        meta["patch_applies"] = rc == 0
        ok &= rc == 0
        rc, out = sh("cargo test --offline --lib", cwd=wt)
        m = re.search(r"test result: (\w+)\. (\d+) passed; (\d+) failed", out)
        meta["ran"].append({"cmd": "cargo test --offline --lib   (patched tree: the existing unit tests)", "rc": rc,
                            "result": m.group(0) if m else out[-200:]})
        meta["suite_passes_with_patch"] = rc == 0
        ok &= rc == 0
        rc, out = sh("cargo test --offline%s --test %s" % (rel, demo_name), cwd=wt)
        meta["ran"].append({"cmd": "cargo test --offline%s --test %s   (patched tree)" % (rel, demo_name), "rc": rc})
        meta["demo_fails_with_patch"] = rc != 0
        ok &= rc != 0
    finally:
        sh("git -C %s worktree remove --force %s" % (REPO, wt))
        shutil.rmtree(wt, ignore_errors=True)
    meta["confirmed"] = bool(ok)
    print("seed %s/%s confirmed=%s %s" % (prop, label, ok, {k: v for k, v in meta.items() if k.startswith(("demo", "suite", "patch"))}), flush=True)
    if ok:
        rc, out = sh("git -C %s status --porcelain" % REPO)
        assert out.strip() == "", "/repo working tree is not clean: " + out
        rc, out = sh("git -C %s apply %s" % (REPO, patch))
        assert rc == 0, out
        try:
            for c in checks:
                t0 = time.time()
                rc, out = sh("./check %s --tier %s --no-evidence%s" % (c, tier, only), cwd=VERIF, timeout=4 * 3600,
                             env={"VERIF_MAX_CONFIRMED": "2"})
                viol = re.findall(r"^VIOLATION .*$", out, re.M)
                detail = re.findall(r"^  verif_\S+: .*$|^  L2 .*counterexample.*$", out, re.M)
                summ = re.findall(r"^\[%s/.*obligations=.*$" % c, out, re.M)
                meta["checks"][c] = {"exit": rc, "violation_lines": viol[:4], "detail": [d[:300] for d in detail[:4]],
                                     "summary": summ[-1] if summ else "", "wall_s": round(time.time() - t0),
                                     "other": re.findall(r"^(?:BROKEN-CHECK|INCONCLUSIVE|SKIPPED|CANDIDATE) .*$", out, re.M)[:6]}
                print("  check %s -> exit %d, %d VIOLATION line(s) %s" % (c, rc, len(viol), summ[-1] if summ else ""), flush=True)
        finally:
            sh("git -C %s checkout -- ." % REPO)
            shutil.rmtree(os.path.join(VERIF, "replays"), ignore_errors=True)
        meta["detected_by"] = [c for c, r in meta["checks"].items() if r["exit"] == 1 and r["violation_lines"]]
    meta["tier"] = tier
    meta["only"] = only.strip()
    dst = os.path.join(VERIF, "seeded", "%s_%s%s" % (prop, label, "" if tier == "quick" and not only else "_" + tier))
    os.makedirs(dst, exist_ok=True)
    shutil.copy(patch, os.path.join(dst, "patch.diff"))
    shutil.copy(demo, os.path.join(dst, os.path.basename(demo)))
    with open(os.path.join(dst, "meta.json"), "w") as f:
        json.dump(meta, f, indent=1)
    print(json.dumps({"confirmed": ok, "detected_by": meta.get("detected_by")}))


if __name__ == "__main__":
    main()
