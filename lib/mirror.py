"""Build the scratch *mirror crate* from /repo's current working tree.

The mirror's src/ directory symlinks every entry of /repo/src except lib.rs; lib.rs is
regenerated from /repo/src/lib.rs (crate-level attributes replaced) with the harness modules
appended as `#[cfg(kani)] mod verif_<x>;`.  The compiler therefore reads the real, current
files of the repository; nothing of the library is copied.
"""
import os
import re
import shutil
import subprocess

REPO = os.environ.get("VERIF_REPO", "/repo")
VERIF = os.path.dirname(os.path.dirname(os.path.abspath(__file__)))

CARGO_TOML = """[package]
name = "volute"
version = "0.0.0"
edition = "2021"

[workspace]

[dependencies]
rand = {{ path = "{shim}", optional = true }}
kani = {{ path = "{kshim}", optional = true }}

[features]
default = []
rand = ["dep:rand"]
native_replay = ["dep:kani"]

[lints.rust]
unexpected_cfgs = {{ level = "allow" }}
"""


def repo_src():
    return os.path.join(REPO, "src")


def make_mirror(dst, modules, extra_lib_lines=(), native=False):
    """Create mirror crate at `dst`.

    modules: dict  module_name -> source text (written to src/<module_name>.rs)
    extra_lib_lines: extra lines appended to lib.rs
    native: if True the harness modules are compiled unconditionally (for native runners),
            otherwise only under cfg(kani).
    """
    src = os.path.join(dst, "src")
    os.makedirs(src, exist_ok=True)
    rsrc = repo_src()
    for e in sorted(os.listdir(rsrc)):
        if e == "lib.rs":
            continue
        link = os.path.join(src, e)
        if os.path.lexists(link):
            os.unlink(link)
        os.symlink(os.path.join(rsrc, e), link)
    with open(os.path.join(rsrc, "lib.rs")) as f:
        lib = f.read()
    # crate-level inner attributes (#![warn(missing_docs)], #![cfg_attr(docsrs, ...)]) are dropped:
    # they only concern documentation lints.
    lib = re.sub(r"^#!\[[^\n]*\]\s*$", "", lib, flags=re.M)
    head = "#![allow(missing_docs, dead_code, unused_imports, unused_variables, unused_mut, unused_macros, unexpected_cfgs, clippy::all)]\n"
    tail = ["", "// ---- appended by /verif/lib/mirror.py ----"]
    for m in modules:
        if native:
            tail.append("pub mod %s;" % m)
        else:
            tail.append("#[cfg(kani)]\npub mod %s;" % m)
    tail.extend(extra_lib_lines)
    with open(os.path.join(src, "lib.rs"), "w") as f:
        f.write(head + lib + "\n".join(tail) + "\n")
    for m, text in modules.items():
        with open(os.path.join(src, m + ".rs"), "w") as f:
            f.write(text)
    with open(os.path.join(dst, "Cargo.toml"), "w") as f:
        f.write(CARGO_TOML.format(shim=os.path.join(VERIF, "shims", "rand"),
                                  kshim=os.path.join(VERIF, "shims", "kani")))
    # a lock file up front, so that concurrent `cargo kani` runs on this crate never race to write it
    try:
        subprocess.run(["cargo", "generate-lockfile", "--offline"], cwd=dst, check=False,
                       stdout=subprocess.DEVNULL, stderr=subprocess.DEVNULL, timeout=120)
    except Exception:
        pass
    return dst


def copy_mirror(src_dir, dst_dir):
    """Cheap copy of a generated mirror (symlinks preserved) for a private target dir."""
    shutil.copytree(src_dir, dst_dir, symlinks=True)
    return dst_dir
