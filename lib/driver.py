"""Property driver: build mirror(s), run harnesses, evaluate verdicts, replay, write evidence."""
import json
import os
import re
import shutil
import signal
import subprocess
import sys
import time

import evidence as evidence_mod
import kani_run
import mirror
import registry
import replay as replay_mod

VERIF = os.path.dirname(os.path.dirname(os.path.abspath(__file__)))
HARNESS_DIR = os.path.join(VERIF, "harness")
REPLAY_DIR = os.path.join(VERIF, "replays")
KNOWN_FINDINGS = os.path.join(VERIF, "known_findings.txt")
MAX_CONFIRMED = int(os.environ.get("VERIF_MAX_CONFIRMED", "3"))


def kill_children():
    try:
        subprocess.run(["pkill", "-KILL", "-P", str(os.getpid())], check=False)
    except Exception:
        pass


def log(msg):
    print(msg, flush=True)


# ------------------------------------------------------------------------------------------------
# known findings
# ------------------------------------------------------------------------------------------------

def load_known_findings():
    """Lines:  finding: property=<id> key=<substring of 'fn|check description'> <text>
               fixed: property=<id> <commit> <text>            (suppresses nothing)"""
    out = []
    if not os.path.exists(KNOWN_FINDINGS):
        return out
    with open(KNOWN_FINDINGS) as f:
        for line in f:
            line = line.strip()
            if not line.startswith("finding:"):
                continue
            m = re.match(r"finding:\s+property=(\S+)\s+key=(\S+)\s+(.*)", line)
            if m:
                out.append({"property": m.group(1), "key": m.group(2), "text": m.group(3)})
    return out


def match_known(findings, prop, spec, check_desc):
    role = spec.get("role") or spec["name"].split("::")[-1]
    ident = "%s|%s" % (role, check_desc)
    for f in findings:
        if f["property"] == prop and f["key"] in ident:
            return f
    return None


# ------------------------------------------------------------------------------------------------
# module assembly
# ------------------------------------------------------------------------------------------------

def read_harness(name):
    """`a.rs+b.rs` concatenates several harness files into one module."""
    out = []
    for part in name.split("+"):
        with open(os.path.join(HARNESS_DIR, part)) as f:
            out.append(f.read())
    return "\n".join(out)


def build_modules(specs):
    """module name -> text (source + instantiation lines of the selected specs)."""
    mods = {"verif_common": read_harness("common.rs")}
    by_mod = {}
    for s in specs:
        by_mod.setdefault(s["module"], {"source": s["source"], "inst": [], "deps": []})
        if s["inst"] and s["inst"] not in by_mod[s["module"]]["inst"]:
            by_mod[s["module"]]["inst"].append(s["inst"])
        for d in s.get("deps", []):
            if d not in by_mod[s["module"]]["deps"]:
                by_mod[s["module"]]["deps"].append(d)
    for m, info in by_mod.items():
        for dep_mod, dep_src in info["deps"]:
            if dep_mod not in mods:
                mods[dep_mod] = read_harness(dep_src)
        mods[m] = read_harness(info["source"]) + "\n" + "\n".join(info["inst"]) + "\n"
    return mods


# ------------------------------------------------------------------------------------------------
# verdict per harness
# ------------------------------------------------------------------------------------------------

def cover_ok(expected, actual):
    if expected == "SATISFIED":
        return actual == "SATISFIED"
    if expected in ("UNSAT", "UNSATISFIABLE"):
        return actual in ("UNSATISFIABLE", "UNREACHABLE")
    return True


def evaluate(spec, res):
    """-> (verdict, detail, candidate_checks)
    verdict: discharged | candidate | inconclusive | broken | skipped"""
    kind = spec.get("kind", "holds")
    if res.status == "COMPILE_ERROR":
        if spec.get("level") == "kernel":
            return "skipped", "anchor not found: kernel-level harness no longer compiles against the tree", []
        return "broken", "public-level harness does not compile", []
    if res.status in ("TIMEOUT", "OOM", "ERROR", "NOT_RUN"):
        return "inconclusive", res.status, []
    real_fail = [c for c in res.failed_checks if c["status"] == "FAILURE" and c["class"] != "unwind"]
    unwind_fail = [c for c in res.failed_checks if c["status"] == "FAILURE" and c["class"] == "unwind"]
    hb = [c for c in real_fail if c["class"] == "harness-bug"]
    if hb:
        return "broken", "failing check inside harness code that is not an oracle assertion: %s at %s" % (
            hb[0]["description"], hb[0]["location"]), []
    if kind == "holds":
        if res.status == "SUCCESS":
            bad = []
            for desc, exp in spec.get("covers", {}).items():
                act = res.covers.get(desc, "MISSING")
                if not cover_ok(exp, act):
                    bad.append("%s: expected %s got %s" % (desc, exp, act))
            if bad:
                return "broken", "cover mismatch (vacuity guard): " + "; ".join(bad), []
            # reachability CLAIMS of the property (e.g. C19: "the constant one is reachable"): an
            # unsatisfiable one is a universal counterexample, confirmed natively before it is reported
            unreached = []
            for desc, exp in spec.get("claim_covers", {}).items():
                act = res.covers.get(desc, "MISSING")
                if not cover_ok(exp, act):
                    unreached.append({"name": "cover", "status": act, "description": desc, "location": "",
                                      "class": "claim-cover"})
            if unreached:
                return "candidate", "reachability claim refuted by the solver", unreached
            return "discharged", "", []
        if real_fail:
            return "candidate", "%d failing checks" % len(real_fail), real_fail
        if unwind_fail:
            return "inconclusive", "unwinding assertion failed: bound too small", []
        return "inconclusive", "FAILED without failing checks", []
    if kind == "must_panic":
        # the call under test must never return; panics inside the library are the expected outcome
        ret = res.covers.get("RETURNED", "MISSING")
        called = res.covers.get("CALLED", "MISSING")
        if called != "SATISFIED":
            if unwind_fail and not real_fail:
                return "inconclusive", "unwinding assertion failed: bound too small", []
            return "broken", "CALLED cover is %s (vacuous harness)" % called, []
        cands = []
        if ret == "SATISFIED":
            cands.append({"name": "cover", "status": "SATISFIED", "description": "RETURNED",
                          "location": "", "class": "returned"})
        elif ret not in ("UNSATISFIABLE", "UNREACHABLE"):
            return "inconclusive", "RETURNED cover is %s" % ret, []
        for c in real_fail:
            if c["class"] == "harness":
                cands.append(c)
            elif c["class"] == "overflow" and spec.get("cfg") == "rel":
                # Kani's `rel` keeps rustc overflow checks: the real release build may behave differently
                cands.append(c)
        if cands:
            return "candidate", "call can return / overflow-dependent panic", cands
        if unwind_fail:
            return "inconclusive", "unwinding assertion failed", []
        return "discharged", "", []
    return "broken", "unknown kind", []


# ------------------------------------------------------------------------------------------------
# main flow
# ------------------------------------------------------------------------------------------------

def run_property(prop, tier, seed, scratch, only=None, list_only=False, write_evidence=True):
    t0 = time.time()
    if prop not in registry.PROPS:
        log("unknown property %s" % prop)
        return 2
    specs = registry.harnesses(prop, tier, seed)
    if only:
        specs = [s for s in specs if only in s["name"]]
    if list_only:
        for s in specs:
            print(s["name"], s["tier"], s.get("cfg"), s["inst"])
        return 0
    for s in specs:
        s["seed"] = seed
    extra_results = []
    repo_src = mirror.repo_src()

    # group by (level, features, stubbing): kernel-level groups get their own mirror so that a
    # compile failure there never touches the public-level verdict
    groups = {}
    for s in specs:
        key = (s.get("level", "public"), s["module"])
        groups.setdefault(key, []).append(s)
    crate_of = {}
    for key, gs in groups.items():
        cdir = os.path.join(scratch, "m_%s_%s" % key)
        mirror.make_mirror(cdir, build_modules(gs))
        for s in gs:
            crate_of[s["name"] + "/" + s.get("cfg", "dev")] = cdir

    log("[%s/%s] %d harnesses, scratch %s" % (prop, tier, len(specs), scratch))

    def progress(r):
        log("  %-44s %-13s %6.1fs  checks=%d failed=%d" % (
            r.spec["name"].split("::")[-1] + "/" + r.spec.get("cfg", "dev"), r.status, r.wall_s,
            r.checks_total, r.checks_failed))

    results = {}
    # run per crate dir (each run_many call handles one crate); do them all in one scheduler pass
    all_results = run_all(specs, crate_of, scratch, repo_src, progress)
    for s, r in zip(specs, all_results):
        results[s["name"] + "/" + s.get("cfg", "dev")] = r

    # retry inconclusive (timeouts / OOM) alone with a doubled budget -- unless many harnesses are affected
    # (then the cause is systematic, e.g. a change that makes the code much more expensive to analyse)
    n_incon = sum(1 for s in specs if results[s["name"] + "/" + s.get("cfg", "dev")].status in ("TIMEOUT", "OOM", "ERROR")
                  and not s.get("optional"))
    for s in (specs if n_incon <= 2 else []):
        k = s["name"] + "/" + s.get("cfg", "dev")
        r = results[k]
        if r.status in ("TIMEOUT", "OOM", "ERROR") and not s.get("optional"):
            s2 = dict(s)
            s2["timeout"] = s.get("timeout", 900) * 2
            s2["mem_limit_gb"] = max(s.get("mem_limit_gb", 14), 30)
            log("  retrying %s alone (was %s)" % (s["name"], r.status))
            r2 = kani_run.run_one(crate_of[k], s2, scratch, repo_src)
            progress(r2)
            results[k] = r2

    # extra (non-Kani) obligations
    if prop in registry.EXTRA:
        extra_results = registry.EXTRA[prop](scratch, tier, seed, log)

    findings = load_known_findings()
    violations = []
    known_hits = []
    inconclusive = []
    broken = []
    skipped = []
    undecided_optional = []
    unconfirmed = []
    discharged = 0
    records = []
    for s in specs:
        k = s["name"] + "/" + s.get("cfg", "dev")
        r = results[k]
        verdict, detail, cands = evaluate(s, r)
        rec = r.summary()
        rec.update({"verdict": verdict, "detail": detail, "what": s.get("what", ""), "n": s.get("n"),
                    "fam": s.get("fam"), "level": s.get("level", "public"), "kind": s.get("kind", "holds"),
                    "tier": s["tier"]})
        if verdict == "discharged":
            discharged += 1
        elif verdict == "skipped":
            skipped.append((s, detail))
        elif verdict == "inconclusive":
            if s.get("optional"):
                undecided_optional.append((s, detail))
                rec["verdict"] = "undecided(optional)"
            else:
                inconclusive.append((s, detail))
        elif verdict == "broken":
            broken.append((s, detail, r))
        elif verdict == "candidate" and len(violations) >= MAX_CONFIRMED:
            # enough natively confirmed violations for this run: the remaining candidates are listed, not replayed
            unconfirmed.append((s, "; ".join(sorted({c["description"] for c in cands}))[:200]))
            rec["verdict"] = "candidate(not replayed: %d violations already confirmed)" % len(violations)
        elif verdict == "candidate":
            out = confirm_candidate(prop, s, r, cands, crate_of[k], scratch, repo_src, findings)
            rec["replay"] = out["summary"]
            if out["violations"]:
                violations.extend(out["violations"])
                rec["verdict"] = "violation"
            elif out["known"]:
                known_hits.extend(out["known"])
                rec["verdict"] = "known-finding"
            elif out["settled"]:
                # must_panic harness: overflow-dependent candidates all panicked natively in both profiles
                rec["verdict"] = "discharged(native-replay)"
                discharged += 1
            else:
                inconclusive.append((s, "counterexample did not reproduce natively: " + out["summary"]))
                rec["verdict"] = "not-reproduced"
        records.append(rec)

    for er in extra_results:
        records.append(er)
        if er["verdict"] == "violation" and er.get("confirm"):
            # a solver counterexample about constants (sequence lemma): confirm against the real code natively
            cf = er.pop("confirm")
            rpath = os.path.join(REPLAY_DIR, prop, re.sub(r"\W+", "_", er["harness"])[:60] + "__claim.rs")
            spec2 = {"name": cf["module"] + "::" + cf["fn"], "module": cf["module"], "source": cf["source"],
                     "inst": cf["inst"], "cfg": "dev", "kind": "holds", "features": []}
            pb = {"check_kind": "claim", "check_desc": er["harness"], "vals_text": "vec![]", "body": er.get("text", "")}
            replay_mod.write_replay_file(rpath, prop, spec2, pb)
            meta = replay_mod.read_replay_file(rpath)
            nat = replay_mod.native_replay(scratch, HARNESS_DIR, meta, profiles=("release",))
            hits = replay_mod.reproduced("holds", nat)
            desc = "; ".join("%s: %s %s" % (p_, outs[0][0], outs[0][1][:200]) for p_, outs in nat.items())
            if hits:
                er["replay_path"] = rpath
                er["text"] = er.get("text", "") + " | native confirmation: " + desc
            else:
                os.unlink(rpath)
                er["verdict"] = "inconclusive"
                er["detail"] = "solver counterexample not confirmed natively: " + desc
        if er["verdict"] == "discharged":
            discharged += 1
        elif er["verdict"] == "violation":
            violations.append(er)
        elif er["verdict"] == "skipped":
            skipped.append(({"name": er["harness"]}, er.get("detail", "")))
        else:
            inconclusive.append(({"name": er["harness"]}, er.get("detail", "")))

    wall = time.time() - t0
    for v in violations:
        print("VIOLATION property=%s replay=%s" % (prop, v.get("replay_path", "-")), flush=True)
        if v.get("text"):
            log("  " + v["text"])
    for kf in known_hits:
        print("KNOWN-FINDING: property=%s %s" % (prop, kf), flush=True)
    for s, d in unconfirmed:
        log("CANDIDATE (solver counterexample, not replayed because %d violations are already confirmed) %s: %s" % (
            len(violations), s["name"], d))
    for s, d in skipped:
        log("SKIPPED %s: %s" % (s["name"], d))
    for s, d in undecided_optional:
        log("UNDECIDED(optional, outside the claim of this run) %s: %s" % (s["name"], d))
    for s, d in inconclusive:
        log("INCONCLUSIVE %s: %s" % (s["name"], d))
    for s, d, r in broken:
        log("BROKEN-CHECK %s: %s" % (s["name"], d))
        tail = "\n".join(r.log.splitlines()[-40:]) if r.status == "COMPILE_ERROR" else ""
        if r.status == "COMPILE_ERROR":
            errs = [l for l in r.log.splitlines() if l.startswith("error")][:10]
            log("    " + "\n    ".join(errs))

    total = len(specs) + len(extra_results)
    if write_evidence:
        evidence_mod.write(prop, tier, seed, records, wall, violations=len(violations),
                           total=total, discharged=discharged, skipped=[s["name"] for s, _ in skipped],
                           inconclusive=[s["name"] for s, _ in inconclusive],
                           undecided_optional=[s["name"] for s, _ in undecided_optional],
                           known=known_hits)
    log("[%s/%s] obligations=%d discharged=%d violations=%d known=%d skipped=%d inconclusive=%d broken=%d undecided-optional=%d wall=%.0fs" % (
        prop, tier, total, discharged, len(violations), len(known_hits), len(skipped), len(inconclusive),
        len(broken), len(undecided_optional), wall))
    if violations:
        return 1
    if inconclusive or broken:
        return 2
    return 0


def run_all(specs, crate_of, scratch, repo_src, progress):
    """Schedule all harnesses (possibly of different crate dirs) in one memory-weighted pool."""
    import threading
    jobs = int(os.environ.get("VERIF_JOBS", "0")) or max(1, (os.cpu_count() or 4) - 2)
    mem_budget = float(os.environ.get("VERIF_MEM_GB", "44"))
    order = sorted(range(len(specs)), key=lambda i: -specs[i].get("mem", 1))
    results = [None] * len(specs)
    cond = threading.Condition()
    state = {"running": 0, "mem": 0.0}

    def worker(i):
        s = specs[i]
        try:
            r = kani_run.run_one(crate_of[s["name"] + "/" + s.get("cfg", "dev")], s, scratch, repo_src)
        except Exception as e:
            r = kani_run.HarnessResult(s)
            r.status = "ERROR"
            r.log = "runner exception %r" % (e,)
        with cond:
            results[i] = r
            state["running"] -= 1
            state["mem"] -= s.get("mem", 1)
            cond.notify_all()
        progress(r)

    threads = []
    pending = list(order)
    with cond:
        while pending:
            started = False
            for k, i in enumerate(pending):
                w = specs[i].get("mem", 1)
                if state["running"] < jobs and (state["mem"] + w <= mem_budget or state["running"] == 0):
                    pending.pop(k)
                    state["running"] += 1
                    state["mem"] += w
                    t = threading.Thread(target=worker, args=(i,), daemon=True)
                    t.start()
                    threads.append(t)
                    started = True
                    break
            if not started:
                cond.wait()
    for t in threads:
        t.join()
    return results


def confirm_candidate(prop, spec, res, cands, crate_dir, scratch, repo_src, findings):
    """Re-run with concrete playback, replay natively. Returns dict(violations, known, settled, summary)."""
    out = {"violations": [], "known": [], "settled": False, "summary": ""}
    if cands and all(c["class"] == "claim-cover" for c in cands):
        return confirm_claim(prop, spec, cands, scratch, findings)
    s2 = dict(spec)
    s2["timeout"] = spec.get("timeout", 900) * 2
    r2 = kani_run.run_one(crate_dir, s2, scratch, repo_src,
                          extra_args=["-Z", "concrete-playback", "--concrete-playback=print"])
    pbs = replay_mod.extract_playbacks(r2.log)
    want = {}
    for c in cands:
        want.setdefault(c["description"], c)
    chosen = []
    seen = {}
    for pb in pbs:
        if pb["check_desc"] in want:
            # several checks may share a description (different locations): keep up to 3 of each
            seen[pb["check_desc"]] = seen.get(pb["check_desc"], 0) + 1
            if seen[pb["check_desc"]] <= 3:
                chosen.append(pb)
    if not chosen:
        out["summary"] = "no concrete playback emitted for the failing checks (%s)" % ", ".join(list(want)[:3])
        return out
    kind = spec.get("kind", "holds")
    notes = []
    all_settled = True
    reported = set()
    for pb in chosen[:8]:
        fn = spec["name"].split("::")[-1]
        slug = re.sub(r"\W+", "_", pb["check_desc"])[:40]
        rpath = os.path.join(REPLAY_DIR, prop, "%s__%s__%s.rs" % (fn, spec.get("cfg", "dev"), slug))
        meta = {"harness": spec["name"], "module": spec["module"], "source": spec["source"], "inst": spec["inst"],
                "vals_text": pb["vals_text"], "features": spec.get("features", []), "deps": spec.get("deps", []),
                "kind": kind}
        variants = None
        is_sweep = kind == "must_panic" and pb["check_kind"] != "cover" and spec.get("sweep")
        if is_sweep:
            # Kani's `rel` keeps rustc overflow checks, so the path past an overflow is cut in the model;
            # the real release build wraps.  Sweep the invalid argument (first symbolic value) natively.
            variants = [replay_mod.parse_vals(pb["vals_text"])] + replay_mod.sweep_variants(
                pb["vals_text"], 0, spec["sweep"])
        nat = replay_mod.native_replay(scratch, HARNESS_DIR, meta, variants=variants)
        hits = replay_mod.reproduced(kind, nat)
        desc = "; ".join("%s: %s" % (p, ", ".join(sorted({o for o, _d in outs}))) for p, outs in nat.items())
        first_detail = "; ".join("%s: %s %s" % (p, outs[0][0], outs[0][1][:140]) for p, outs in nat.items())
        notes.append("[%s] %s" % (pb["check_desc"][:60], desc))
        if hits:
            all_settled = False
            if pb["check_desc"] in reported:
                continue
            reported.add(pb["check_desc"])
            prof, k = hits[0]
            pb2 = dict(pb)
            if variants is not None:
                pb2["vals_text"] = replay_mod.format_vals(variants[k])
                first_detail = "%s: %s %s" % (prof, nat[prof][k][0], nat[prof][k][1][:140])
            replay_mod.write_replay_file(rpath, prop, spec, pb2)
            kf = match_known(findings, prop, spec, pb["check_desc"])
            text = "%s: check \"%s\" reproduces natively in profile(s) %s (%s)" % (
                spec["name"], pb["check_desc"], ",".join(sorted({h[0] for h in hits})), first_detail)
            if kf:
                out["known"].append("%s [%s]" % (kf["text"], text))
                try:
                    os.unlink(rpath)
                except OSError:
                    pass
            else:
                out["violations"].append({"replay_path": rpath, "text": text, "harness": spec["name"]})
        else:
            if not (kind == "must_panic" and pb["check_kind"] != "cover"):
                all_settled = False
    out["summary"] = " | ".join(notes)
    if kind == "must_panic" and all_settled and not out["violations"] and not out["known"]:
        # only overflow-class candidates, each of which panics natively in both profiles for every swept value
        out["settled"] = True
    return out


def confirm_claim(prop, spec, cands, scratch, findings):
    """A reachability claim came back unsatisfiable (for ALL symbolic inputs the situation never occurs).
    There is no single input to replay; the native confirmation is the harness's `confirm_fn`, a deterministic
    native run of the property's own formulation.  It must panic for the violation to be reported."""
    out = {"violations": [], "known": [], "settled": False, "summary": ""}
    descs = ", ".join(c["description"] for c in cands)
    if not spec.get("confirm_fn"):
        out["summary"] = "claim covers unsatisfiable (%s) and no native confirmation available" % descs
        return out
    fn = spec["name"].split("::")[-1]
    rpath = os.path.join(REPLAY_DIR, prop, "%s__%s__claim.rs" % (fn, spec.get("cfg", "dev")))
    spec2 = dict(spec)
    spec2["name"] = spec["module"] + "::" + spec["confirm_fn"]
    spec2["inst"] = spec["confirm_inst"]
    pb = {"check_kind": "claim", "check_desc": "unreachable: " + descs, "vals_text": "vec![]",
          "body": "solver verdict: for every sequence of RNG outputs none of [%s] is reachable; native confirmation: %s" % (descs, spec["confirm_fn"])}
    replay_mod.write_replay_file(rpath, prop, spec2, pb)
    meta = replay_mod.read_replay_file(rpath)
    meta["deps"] = spec.get("deps", [])
    nat = replay_mod.native_replay(scratch, HARNESS_DIR, meta)
    hits = replay_mod.reproduced("holds", nat)
    desc = "; ".join("%s: %s %s" % (p, outs[0][0], outs[0][1][:160]) for p, outs in nat.items())
    out["summary"] = desc
    if hits:
        kf = match_known(findings, prop, spec, descs)
        text = "%s: the solver shows [%s] unreachable for every RNG output; native confirmation (%s) fails: %s" % (
            spec["name"], descs, spec["confirm_fn"], desc)
        if kf:
            out["known"].append("%s [%s]" % (kf["text"], text))
            os.unlink(rpath)
        else:
            out["violations"].append({"replay_path": rpath, "text": text, "harness": spec["name"]})
    else:
        try:
            os.unlink(rpath)
        except OSError:
            pass
    return out


def replay_only(prop, path, scratch):
    meta = replay_mod.read_replay_file(path)
    # deps of the module are looked up from the registry
    for s in registry.PROPS.get(prop, lambda t, sd: [])("thorough", 0):
        if s["module"] == meta["module"]:
            meta["deps"] = s.get("deps", [])
            break
    nat = replay_mod.native_replay(scratch, HARNESS_DIR, meta)
    hits = replay_mod.reproduced(meta.get("kind", "holds"), nat)
    for p, outs in nat.items():
        for (o, d) in outs:
            log("replay %s [%s]: %s %s" % (meta["harness"], p, o, d[:300]))
    if hits:
        print("VIOLATION property=%s replay=%s" % (prop, path), flush=True)
        return 1
    log("replay does not reproduce on the current tree")
    return 0
