#!/usr/bin/env python3
"""Regenerate /verif/MANIFEST.json from the table below (kept next to the registry so they stay in sync)."""
import json
import os
import sys

VERIF = os.path.dirname(os.path.dirname(os.path.abspath(__file__)))
sys.path.insert(0, os.path.join(VERIF, "lib"))
import registry  # noqa: E402

BASELINE_OFF = ("cd /repo && cargo nextest run --workspace --no-fail-fast --tool-config-file pb:/w/lib/nextest.toml "
                "--profile pb --test-threads 8 --offline || (cd /repo && cargo test --workspace --no-fail-fast --offline)")

TRUST = ("Trusted base: rustc MIR construction (Kani's pinned nightly), Kani 0.68 MIR->GOTO translation and its core/alloc models, "
         "CBMC 6.11 + CaDiCaL, the definitional oracles in /verif/harness; bounds are concrete sizes n and unwind values per harness "
         "(unwinding assertions on); tables are assumed well-formed (from_blocks precondition); counterexamples are reported only after "
         "native replay (dev + release) with the repository's rustc.")

CHECKS = {
    "C01": {
        "text": "Bounded model checking (Kani/CBMC) of every syntactic form of NOT/AND/OR/XOR on fully symbolic well-formed tables with a symbolic assignment, "
                "one SAT query family per (type, n, operator): all 2^(2^n) tables and all assignments at once for each concrete n. quick: LutN n=0..10, Lut n in {0,3,6,7,9,+1 seeded}; "
                "thorough: LutN and Lut n=0..12. Lut n=13,14 are outside the claim.",
        "design_ref": "DESIGN.md section 5 / C01",
        "technique": "Kani/CBMC bounded model checking of the compiled crate, symbolic tables and assignment, SAT (CaDiCaL)",
    },
}

CHECKS.update({
    "C03": {
        "text": "Bounded model checking of flip/swap/swap_adjacent/cofactors/from_cofactors (copying and in-place) on fully symbolic tables with symbolic indices i, j < n and a symbolic assignment: result bit m equals the defining source bit, so all three storage regimes (in-word, mixed, cross-word) are inside one query per (type, n, method). quick: LutN n=1..8, Lut n in {1,3,6,7,8,+1 seeded} with symbolic indices, plus CONCRETE-index harnesses (one per index / representative index pair) for LutN n=9,10 (all indices) and a few at n=11,12; thorough: symbolic indices n=1..12 (swap n>=11 and all n=12 optional under caps) and concrete indices for every index and representative pairs up to n=12, both types. Lut n=13,14 outside the claim.",
        "design_ref": "DESIGN.md section 5 / C03",
        "technique": "Kani/CBMC bounded model checking, symbolic tables/indices/assignment, SAT (CaDiCaL)",
    },
    "C08": {
        "text": "Bounded model checking of Ord/PartialOrd/Eq consistency against a most-significant-word-first numeric comparison (symbolic pairs and triples, Lut pairs of different n), of the successor kernel next_inplace from an ARBITRARY well-formed table (kernel-level lemma: multi-word carry, wrap to zero, no check fires) for n=0..9 (thorough ..12), and complete runs of the public iterator for n<=2 (thorough n=3). Hex-string order is not asserted here (it follows from C09's fixed-width MSB-first rendering).",
        "design_ref": "DESIGN.md section 5 / C08",
        "technique": "Kani/CBMC bounded model checking; one inductive successor step from an arbitrary state instead of iterating 2^(2^n) items",
    },
    "C11": {
        "text": "Bounded model checking of every named constructor against its definition via popcount(m) with a symbolic assignment and the parameter (k, c, i) ranging over ALL usize values (covers pin k in {n+1, 63, 64, 65, usize::MAX}). quick: LutN n=0..8, Lut n in {0,3,6,7,8,+1 seeded}; thorough: n=0..12 both types.",
        "design_ref": "DESIGN.md section 5 / C11",
        "technique": "Kani/CBMC bounded model checking, parameter k/c fully symbolic over usize, SAT (CaDiCaL)",
    },
    "C17": {
        "text": "Bounded model checking in two build configurations (dev: debug assertions on; rel: debug assertions compiled out) that every index-/assignment-/table-/slice-taking method never returns on an invalid argument (cover RETURNED unreachable; index in [n,n+70] U {usize::MAX}, assignment in [2^n,2^n+70] U {usize::MAX}, slice length in 0..=T+2 except T, Lut pairs of different n) for n=0..8; plus valid-argument harnesses showing no debug-only check can fire. Overflow-dependent panics seen only in Kani's rel configuration (which keeps rustc overflow checks) are decided by native replay in a real --release build, sweeping the invalid argument over its whole range.",
        "design_ref": "DESIGN.md section 5 / C17",
        "technique": "Kani/CBMC reachability (cover) queries in two build configurations + native release replay of solver counterexamples",
    },
})

CHECKS.update({
    "C02": {
        "text": "Bounded model checking of (a) extensionality: for symbolic pairs a==b iff no assignment differs (Skolem witness: lowest differing bit, which must be < 2^n), cmp==Equal iff ==, equal values feed identical byte streams to a recording Hasher, Luts of different n never equal; (b) well-formedness as an inductive invariant: ONE step of every public producer (28 operator forms, mutators, flip/swap/cofactors/from_cofactors, all named constructors with parameters over all usize, conversions, iterator successor kernel, every Ok value of from_hex_string over fully symbolic input strings) from arbitrary well-formed operands yields a well-formed table. Composition over finite histories is the stated pen-and-paper step. quick n=0..8, thorough n=0..12.",
        "design_ref": "DESIGN.md section 5 / C02",
        "technique": "Kani/CBMC bounded model checking: one inductive step per producer from an arbitrary well-formed state + Skolemised extensionality",
    },
    "C06": {
        "text": "Bounded model checking that top_decomposition / is_pos_unate / is_neg_unate EQUAL (sound and complete in one query) the class derived from the two cofactor tables by the property's priority order, for symbolic table and symbolic variable; the harness cofactor tables are tied to the definition by a separate solver-checked lemma (bit m of C0/C1 is f(m with x_v cleared/set)). quick n=1..8 with v symbolic plus every concrete v at n=9,10 and a few at n=11,12 (LutN); thorough adds symbolic v at n=9,10 and every concrete v up to n=12, both types.",
        "design_ref": "DESIGN.md section 5 / C06",
        "technique": "Kani/CBMC bounded model checking against a two-piece definitional oracle (cofactor lemma + classification)",
    },
    "C09": {
        "text": "Bounded model checking of from_hex_string over strings whose every byte is symbolic: exactly-width ASCII strings (n=0..6 quick, n=7 thorough) are Ok iff all bytes are hex digits and the value fits, with exactly the denoted well-formed table; every other length 0..=width+2 is Err; a 2-byte UTF-8 character at a symbolic position (also straddling the 16-digit chunk boundary) is Err without panic. Printing is weaker (core::fmt cost): to_hex_string length and digit at a symbolic position for n<=2 quick (n<=5 thorough, n>=4 under caps). to_bin_string, the explicit parse(print(f)) round trip, the Display/LowerHex/Binary wrappers and all printing for n>=6 (including the word order of multi-word tables) are outside the claim: measured out of memory even at n=0..1 / with words restricted to < 16.",
        "design_ref": "DESIGN.md section 5 / C09",
        "technique": "Kani/CBMC bounded model checking with fully symbolic input bytes (parser) and symbolic digit position (printer)",
    },
    "C10": {
        "text": "Differential bounded model checking per exported alias LutN: Lut::from / try_from round trips and rejection of every other size 0..13; for symbolic functions and arguments the same operation on LutN and on Lut gives corresponding results (operators, value, cmp, set_value, flip, swap, swap_adjacent, cofactors, from_cofactors, top_decomposition, unateness, all named constructors with parameters over all usize, first iterator items, from_hex_string on symbolic strings for N<=5); u8/u16/u32/u64 conversions of Lut3..Lut6 bit-exact for all integers. quick N=0..8; thorough: conversions and constructors for all 13 aliases, differential operator/transform harnesses up to N=9 (out of memory beyond; the shared kernels are decided up to n=12 by C01/C03/C06). bdd_complexity pairs are outside (C07); canonization triples are compared at the sizes of C04/C05.",
        "design_ref": "DESIGN.md section 5 / C10",
        "technique": "Kani/CBMC differential bounded model checking (LutN vs Lut on the same symbolic function)",
    },
})

CHECKS.update({
    "C12": {
        "text": "Bounded model checking of the scalar cube algebra with BOTH cubes ranging over all 32 variables (Cube::from_mask of arbitrary u32 masks, surjective onto every constructible cube) and a symbolic 32-bit assignment: value by definition, & (4 forms) = conjunction with canonical zero, == is semantic (4 Skolem witnesses), implies / intersects sound and complete (Skolem witnesses), minterm (n<=31 symbolic, n=32), from_vars, literals, counts. Cube::all(n): a symbolic cube occurs exactly once iff non-zero over variables < n, 3^n items (n<=3 quick, n<=5 thorough). implies_lut against a symbolic function: sound on a symbolic assignment, complete against the definitional scan (n<=4 quick, n<=6 thorough).",
        "design_ref": "DESIGN.md section 5 / C12",
        "technique": "Kani/CBMC bounded model checking over all 32 variables with Skolem witnesses for the existential directions",
    },
    "C13": {
        "text": "Ecube over all 32 variables (built through the public API from symbolic masks): value = parity ^ xnor, ^ (4 forms), ! (2 forms), semantic equality by Skolem witness, counts, constructors; Ecube::all(n) enumerates each term exactly once (n<=2 quick, n<=4 thorough). Soes (partial): forms built from zero/one/nth_var/nth_var_inv and | with concrete operand kinds and symbolic variable indices (4 operands, n<=6 quick, n<=8 thorough): value = OR of terms, | (4 forms), Lut::from tabulates the same well-formed function, is_zero/is_one only for the constants; one general from_cubes term only in thorough under a cap. Soes with several multi-variable terms are outside the claim.",
        "design_ref": "DESIGN.md section 5 / C13",
        "technique": "Kani/CBMC bounded model checking; Ecube fully symbolic over 32 variables, Soes with concrete shapes and symbolic contents",
    },
    "C15": {
        "text": "Esop (partial). Conversion Esop::from(&Lut) for symbolic f and symbolic monomial S: the cube of S occurs exactly ANF(f)[S] times (ANF computed by definition in the harness), every cube is all-positive over variables < n, value(m)==f(m), converting back gives f: n<=2 quick (n=2 count/positivity only), n=2 value/back and n=3 count in thorough under caps; n>=4 outside the claim (the conversion's control flow is a bijective image of f; Vec growth under symbolic conditions). Operators ^ (4 forms) and ! (2 forms), tabulation and is_zero/is_one on constructor-built Esops with concrete operand kinds and symbolic variable indices, n<=6 quick, n<=8 thorough.",
        "design_ref": "DESIGN.md section 5 / C15",
        "technique": "Kani/CBMC bounded model checking with a symbolic function and symbolic monomial index (tiny n), concrete-shape Esops for the operators",
    },
    "C19": {
        "text": "Bounded model checking of random() compiled against an RNG environment stub whose next_u64 returns arbitrary (kani::any) values: for EVERY sequence of RNG outputs the table is well-formed (no bit beyond 2^n, right block count) and each call consumes fresh draws; non-degeneracy as solver-decided reachability claims (constant one, constant zero, differing first/last words, differing calls are each reachable), a refuted claim being confirmed natively by the property's own 256-draw formulation before it is reported. quick LutN n=0..8 and Lut subset, thorough n=0..12. Fairness of thread_rng, the 2^-200 statistical bound and multi-threaded schedules are outside the claim.",
        "design_ref": "DESIGN.md section 5 / C19",
        "technique": "Kani/CBMC bounded model checking with the RNG replaced by a nondeterministic stub (every RNG output symbolic)",
    },
})

C04_TEXT = ("Layered bounded verification (composition for n>=5 is a stated argument, not machine-checked). E2E (public API, real walk/decoder/dispatch/tables): for symbolic f the result is <= g.f for a SYMBOLIC group element g, is a member of the orbit (concrete enumeration of the group as existential witness, independent of the certificate), canonization is idempotent and class-invariant, and the returned (perm, mask) maps f to the result also when f is already canonical: P and N n=0..4, NPN n=0..3 (largest sizes in the quick tier with operations::cmp replaced by an index-loop stand-in via Kani stubbing + equivalence lemma; real kernels in thorough). "
            "L1 walk lemmas (kernel level, n in {2,5,6,7}, 8 thorough): {p,n,npn}_canonization_ind over ARBITRARY short sequences with symbolic contents leave table/best/index as specified and *_res decodes the index into a certificate that maps the input to best (pointwise on a symbolic assignment), including 'no candidate improves'. "
            "L2 sequence lemma (z3 4.8.12 + z3 5.1.0 + cvc5, must agree): for the sequences the library really uses (SWAPS/FLIPS tables n<=6, generators n=7,8, dumped natively from the real file) the solver computes the prefix products and shows no permutation / polarity is missed, the cycle is closed, every entry in range (n<=6 quick, n<=8 thorough). n>=9 and the end-to-end dispatch for n>=5 (NPN n>=4) are outside the claim.")

CHECKS.update({
    "C04": {
        "text": C04_TEXT,
        "design_ref": "DESIGN.md section 5 / C04-C05",
        "technique": "Kani/CBMC bounded model checking (end-to-end small n + inductive walk lemmas) and SMT (z3, cvc5) for the sequence-completeness lemma",
        "note": "Composition of E2E + L1 + L2 + kernel exactness (C01, C03, C08) for n = 5..8 is by the uniformity of the loop body and is NOT machine-checked. ",
    },
    "C05": {
        "text": C04_TEXT,
        "design_ref": "DESIGN.md section 5 / C04-C05",
        "technique": "Kani/CBMC bounded model checking of the certificate (end-to-end small n; pointwise decoder lemma for arbitrary short walks up to n=8) and SMT (z3, cvc5) for closedness of the sequences",
        "note": "Composition of E2E + L1 + L2 for n = 5..8 is a stated argument, not machine-checked. ",
    },
})

NOT_APPLICABLE = {
    "C07": "bdd_complexity is Vec push/retain/sort/dedup under symbolic conditions: a single symbolic function at n=2 does not finish in 900 s under Kani/CBMC (n<=1 is vacuous); no bound at which the property says anything is reachable by the solver",
    "C14": "every Sop operation goes through from_cubes ((0..32).filter over a symbolic mask) or conditional Vec::push and ends in simplify (retain/sort/dedup): '|' on two one-cube Sops built from constructors (concrete shapes, symbolic variable indices) runs CBMC out of memory in array-theory post-processing (245 s, then OOM), '&' / '!' are heavier; cube-level facts simplify relies on (implies, canonical zero, &) are decided in C12",
    "C16": "Display goes through core::fmt (Arguments, pad_integral, dyn Write) plus String/Vec<String>/join: Cube Display at n=2 exceeds 600 s even with a fixed-array sink; every output byte depends on every input bit, so the solver has no leverage over enumeration",
    "C18": "the deciding computation is HiGHS (C++ behind FFI, floating-point branch-and-bound) driven through good_lp; Kani cannot link or model it and the optim-mip dependencies are not buildable offline here",
}


def main():
    checks = []
    for pid in sorted(CHECKS):
        if pid not in registry.PROPS:
            continue
        c = CHECKS[pid]
        checks.append({
            "property_id": pid,
            "quick_cmd": "./check %s --tier quick" % pid,
            "thorough_cmd": "./check %s --tier thorough" % pid,
            "evidence_file": "/verif/evidence/%s.json" % pid,
            "replay_cmd_template": "./check %s --replay {path}" % pid,
            "engine": "kani-mirror",
            "level_claimed": {"category": "model_checking", "text": c["text"], "design_ref": c["design_ref"]},
            "level_note": c.get("note", "") + TRUST,
            "technique": c["technique"],
        })
    na = [{"property_id": k, "reason": v} for k, v in sorted(NOT_APPLICABLE.items())]
    allp = ["C%02d" % i for i in range(1, 20)]
    for pid in allp:
        if pid not in CHECKS and pid not in NOT_APPLICABLE:
            na.append({"property_id": pid, "reason": "check under construction in this /verif revision (designed in DESIGN.md section 5; not yet claimed)"})
        elif pid in CHECKS and pid not in registry.PROPS:
            na.append({"property_id": pid, "reason": "check under construction in this /verif revision"})
    man = {
        "version": 1,
        "setup_cmd": "./setup.sh",
        "hooks": {
            "guard": "cfg(kani) - set only by cargo-kani; no source hooks are committed to /repo (harnesses live in a generated mirror crate whose src/ symlinks /repo/src)",
            "enable": "./check <id> generates the mirror crate from /repo's working tree and runs `cargo kani` on it",
            "baseline_off_cmd": BASELINE_OFF,
            "source_commits": [],
            "add_only": True,
        },
        "engines": [
            {"name": "kani-mirror", "path": "/verif/check", "serves_properties": [c["property_id"] for c in checks],
             "kind_free_text": "Kani 0.68 / CBMC 6.11 bounded model checking of a mirror crate symlinking /repo/src; z3 + cvc5 for the canonization sequence lemma; native replay of counterexamples"},
        ],
        "checks": checks,
        "not_applicable": sorted(na, key=lambda x: x["property_id"]),
        "notes": "All checks rebuild from /repo's working tree on every run; scratch lives under $TMPDIR and is removed on exit. Exit 2 = inconclusive (timeout/OOM/non-reproducing counterexample), never reported as success or violation.",
    }
    with open(os.path.join(VERIF, "MANIFEST.json"), "w") as f:
        json.dump(man, f, indent=1)
        f.write("\n")


if __name__ == "__main__":
    main()
