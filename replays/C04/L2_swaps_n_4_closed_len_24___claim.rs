// VERIF-REPLAY property=C04 harness=verif_c04::c04_confirm_4_0 module=verif_c04 source=c04.rs cfg=dev kind=holds features=
// VERIF-CHECK claim: L2 swaps n=4 closed (len 24)
// VERIF-INST c04_confirm!(c04_confirm_4_0, 4, 0, 3000, 0);
// VERIF-VALS-BEGIN
vec![]
// VERIF-VALS-END
// Counterexample emitted by Kani (--concrete-playback=print):
// L2 swaps n=4 closed: the solver exhibits a counterexample: sat
