// VERIF-REPLAY property=C08 harness=verif_c08::c08_cmp_s7 module=verif_c08 source=c08.rs cfg=dev kind=holds features=
// VERIF-CHECK assertion: assertion failed: a.partial_cmp(& b) == Some(c)
// VERIF-INST c08_cmp!(c08_cmp_s7, s7, 18);
// VERIF-VALS-BEGIN
vec![
        // 14985992675822337791ul
        vec![255, 254, 254, 128, 240, 240, 248, 207],
        // 4609699134360715007ul
        vec![255, 254, 254, 128, 240, 240, 248, 63],
        // 18444474610842729983ul
        vec![255, 253, 253, 127, 239, 239, 247, 255],
        // 2303856125147020991ul
        vec![191, 254, 254, 128, 240, 240, 248, 31],
    ]
// VERIF-VALS-END
// Counterexample emitted by Kani (--concrete-playback=print):
// /// Test generated for harness `verif_c08::c08_cmp_s7` 
// ///
// /// Check for `assertion`: "assertion failed: a.partial_cmp(& b) == Some(c)"
// 
// #[test]
// fn kani_concrete_playback_c08_cmp_s7_10641994802726029178() {
//     let concrete_vals: Vec<Vec<u8>> = vec![
//         // 14985992675822337791ul
//         vec![255, 254, 254, 128, 240, 240, 248, 207],
//         // 4609699134360715007ul
//         vec![255, 254, 254, 128, 240, 240, 248, 63],
//         // 18444474610842729983ul
//         vec![255, 253, 253, 127, 239, 239, 247, 255],
//         // 2303856125147020991ul
//         vec![191, 254, 254, 128, 240, 240, 248, 31],
//     ];
//     kani::concrete_playback_run(concrete_vals, c08_cmp_s7);
// }
