// VERIF-REPLAY property=C08 harness=verif_c08::c08_cmp_s8 module=verif_c08 source=c08.rs cfg=dev kind=holds features=
// VERIF-CHECK assertion: assertion failed: a.partial_cmp(& b) == Some(c)
// VERIF-INST c08_cmp!(c08_cmp_s8, s8, 34);
// VERIF-VALS-BEGIN
vec![
        // 9436707116355272928ul
        vec![224, 192, 193, 223, 31, 235, 245, 130],
        // 11484302203653455600ul
        vec![240, 254, 255, 253, 1, 112, 96, 159],
        // 356380296748927ul
        vec![127, 31, 254, 64, 32, 68, 1, 0],
        // 9223798689225629824ul
        vec![128, 224, 1, 191, 9, 132, 1, 128],
        // 69079135695388896ul
        vec![224, 192, 131, 160, 27, 107, 245, 0],
        // 11484302203653455609ul
        vec![249, 254, 255, 253, 1, 112, 96, 159],
        // 13835414444167921664ul
        vec![0, 0, 240, 64, 34, 68, 1, 192],
        // 11529776663508287487ul
        vec![255, 255, 255, 191, 201, 254, 1, 160],
    ]
// VERIF-VALS-END
// Counterexample emitted by Kani (--concrete-playback=print):
// /// Test generated for harness `verif_c08::c08_cmp_s8` 
// ///
// /// Check for `assertion`: "assertion failed: a.partial_cmp(& b) == Some(c)"
// 
// #[test]
// fn kani_concrete_playback_c08_cmp_s8_17409202458987058951() {
//     let concrete_vals: Vec<Vec<u8>> = vec![
//         // 9436707116355272928ul
//         vec![224, 192, 193, 223, 31, 235, 245, 130],
//         // 11484302203653455600ul
//         vec![240, 254, 255, 253, 1, 112, 96, 159],
//         // 356380296748927ul
//         vec![127, 31, 254, 64, 32, 68, 1, 0],
//         // 9223798689225629824ul
//         vec![128, 224, 1, 191, 9, 132, 1, 128],
//         // 69079135695388896ul
//         vec![224, 192, 131, 160, 27, 107, 245, 0],
//         // 11484302203653455609ul
//         vec![249, 254, 255, 253, 1, 112, 96, 159],
//         // 13835414444167921664ul
//         vec![0, 0, 240, 64, 34, 68, 1, 192],
//         // 11529776663508287487ul
//         vec![255, 255, 255, 191, 201, 254, 1, 160],
//     ];
//     kani::concrete_playback_run(concrete_vals, c08_cmp_s8);
// }
