#!/bin/sh
# Offline setup: nothing is built ahead of time (every check rebuilds from /repo's working tree);
# this only verifies that the pre-installed engines answer.
set -e
cd "$(dirname "$0")"
export CARGO_NET_OFFLINE=true
cargo kani --version >/dev/null
cbmc --version >/dev/null
z3 --version >/dev/null
cvc5 --version >/dev/null 2>&1 || true
python3 -c "import json,sys; json.load(open('MANIFEST.json'))"
mkdir -p evidence replays
echo "setup ok"
